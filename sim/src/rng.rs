//! The single PRNG of the simulator. Everything random in a run (workload,
//! hash keys, faults, linearisation of settings) is derived from one
//! `VERIF_SEED` through `mix`, so that one integer is one exact execution.

#[derive(Clone, Debug)]
pub struct Rng(u64);

pub fn splitmix(state: &mut u64) -> u64 {
    *state = state.wrapping_add(0x9E37_79B9_7F4A_7C15);
    let mut z = *state;
    z = (z ^ (z >> 30)).wrapping_mul(0xBF58_476D_1CE4_E5B9);
    z = (z ^ (z >> 27)).wrapping_mul(0x94D0_49BB_1331_11EB);
    z ^ (z >> 31)
}

/// Derive an independent stream seed from (root, tag, index).
pub fn mix(root: u64, tag: u64, idx: u64) -> u64 {
    let mut s = root ^ 0xA076_1D64_78BD_642F;
    let a = splitmix(&mut s);
    let mut s2 = a ^ tag.wrapping_mul(0xE703_7ED1_A0B4_28DB);
    let b = splitmix(&mut s2);
    let mut s3 = b ^ idx.wrapping_mul(0x8EBC_6AF0_9C88_C6E3);
    splitmix(&mut s3)
}

pub fn tag(s: &str) -> u64 {
    // FNV-1a, fixed: tags must never depend on a randomly keyed hasher.
    let mut h: u64 = 0xcbf29ce484222325;
    for b in s.bytes() {
        h ^= b as u64;
        h = h.wrapping_mul(0x100000001b3);
    }
    h
}

impl Rng {
    pub fn new(seed: u64) -> Self {
        Rng(seed)
    }
    pub fn sub(&self, label: &str) -> Rng {
        Rng(mix(self.0, tag(label), 0))
    }
    pub fn next_u64(&mut self) -> u64 {
        splitmix(&mut self.0)
    }
    /// uniform in 0..n (n > 0)
    pub fn below(&mut self, n: u64) -> u64 {
        debug_assert!(n > 0);
        // multiply-shift; bias is irrelevant at these sizes
        ((self.next_u64() as u128 * n as u128) >> 64) as u64
    }
    pub fn range(&mut self, lo: u64, hi_incl: u64) -> u64 {
        lo + self.below(hi_incl - lo + 1)
    }
    pub fn usize_below(&mut self, n: usize) -> usize {
        self.below(n as u64) as usize
    }
    pub fn chance(&mut self, num: u64, den: u64) -> bool {
        self.below(den) < num
    }
    pub fn pick<'a, T>(&mut self, xs: &'a [T]) -> &'a T {
        &xs[self.usize_below(xs.len())]
    }
    pub fn shuffle<T>(&mut self, xs: &mut [T]) {
        for i in (1..xs.len()).rev() {
            let j = self.usize_below(i + 1);
            xs.swap(i, j);
        }
    }
    /// A subset of size k (k <= xs.len()), in the original order.
    pub fn subset<T: Clone>(&mut self, xs: &[T], k: usize) -> Vec<T> {
        let mut idx: Vec<usize> = (0..xs.len()).collect();
        self.shuffle(&mut idx);
        let mut chosen: Vec<usize> = idx.into_iter().take(k.min(xs.len())).collect();
        chosen.sort();
        chosen.into_iter().map(|i| xs[i].clone()).collect()
    }
}

/// 64-bit FNV-1a digest used for event-log digests (never std's RandomState).
#[derive(Clone, Copy)]
pub struct Digest(pub u64);
impl Default for Digest {
    fn default() -> Self {
        Digest(0xcbf29ce484222325)
    }
}
impl Digest {
    pub fn new() -> Self {
        Self::default()
    }
    pub fn bytes(&mut self, b: &[u8]) {
        for x in b {
            self.0 ^= *x as u64;
            self.0 = self.0.wrapping_mul(0x100000001b3);
        }
        // separator so that ("ab","c") != ("a","bc")
        self.0 ^= 0xff;
        self.0 = self.0.wrapping_mul(0x100000001b3);
    }
    pub fn str(&mut self, s: &str) {
        self.bytes(s.as_bytes())
    }
    pub fn u64(&mut self, x: u64) {
        self.bytes(&x.to_le_bytes())
    }
    pub fn of_str(s: &str) -> u64 {
        let mut d = Digest::new();
        d.str(s);
        d.0
    }
}
