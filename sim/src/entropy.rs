//! The entropy seam.
//!
//! std's `RandomState` seeds every `HashMap`/`HashSet` from 16 bytes of OS
//! entropy drawn once per thread (through the libc symbol `getrandom`, looked
//! up weakly so that it can be interposed) and then incremented per map
//! instance. The simulator defines that symbol itself: a simulated execution is
//! one fresh OS thread whose first statement stores its entropy seed in a
//! thread-local; the first `RandomState::new()` on that thread calls the
//! function below, which serves the bytes from the seed. No source hook in
//! /repo is involved; all hash collections, SipHash and hashbrown run for real.

use std::cell::{Cell, RefCell};
use std::panic::{catch_unwind, AssertUnwindSafe};
use std::sync::atomic::{AtomicU64, AtomicU8, Ordering};

use crate::rng::splitmix;

static MODE: AtomicU8 = AtomicU8::new(0); // 0 = simulated, 1 = real kernel entropy
pub static TOTAL_DRAWS: AtomicU64 = AtomicU64::new(0);
pub static UNSCHEDULED_DRAWS: AtomicU64 = AtomicU64::new(0);

thread_local! {
    static SEEDED: Cell<bool> = const { Cell::new(false) };
    static STATE: Cell<u64> = const { Cell::new(0x5EED_0000_0000_0001) };
    static DRAWS: Cell<u32> = const { Cell::new(0) };
    static FIRST_KEY: Cell<u128> = const { Cell::new(0) };
    static QUIET: Cell<bool> = const { Cell::new(false) };
    static LAST_PANIC: RefCell<Option<String>> = const { RefCell::new(None) };
}

pub fn set_real_entropy(real: bool) {
    MODE.store(if real { 1 } else { 0 }, Ordering::SeqCst);
}
pub fn is_real_entropy() -> bool {
    MODE.load(Ordering::SeqCst) == 1
}

/// Interposes libc's `getrandom` for this binary.
///
/// # Safety
/// Called by std/libc with a valid buffer of `len` bytes.
#[no_mangle]
pub unsafe extern "C" fn getrandom(buf: *mut u8, len: usize, flags: u32) -> isize {
    if MODE.load(Ordering::Relaxed) == 1 {
        return libc::syscall(libc::SYS_getrandom, buf, len, flags) as isize;
    }
    TOTAL_DRAWS.fetch_add(1, Ordering::Relaxed);
    let seeded = SEEDED.with(|s| s.get());
    if !seeded {
        UNSCHEDULED_DRAWS.fetch_add(1, Ordering::Relaxed);
    }
    let mut st = STATE.with(|s| s.get());
    let mut i = 0usize;
    let mut first: u128 = 0;
    while i < len {
        let w = splitmix(&mut st).to_le_bytes();
        for b in w {
            if i >= len {
                break;
            }
            *buf.add(i) = b;
            if i < 16 {
                first |= (b as u128) << (8 * i);
            }
            i += 1;
        }
    }
    STATE.with(|s| s.set(st));
    DRAWS.with(|d| {
        if d.get() == 0 {
            FIRST_KEY.with(|k| k.set(first));
        }
        d.set(d.get() + 1)
    });
    len as isize
}

pub fn install_panic_hook() {
    let default = std::panic::take_hook();
    std::panic::set_hook(Box::new(move |info| {
        if QUIET.with(|q| q.get()) {
            let msg = if let Some(s) = info.payload().downcast_ref::<&str>() {
                s.to_string()
            } else if let Some(s) = info.payload().downcast_ref::<String>() {
                s.clone()
            } else {
                "<non-string panic payload>".to_string()
            };
            let loc = info
                .location()
                .map(|l| {
                    // keep only the path below the repository / registry root so that
                    // replay files do not depend on where the tree is checked out
                    let f = l.file();
                    let f = f.rsplit_once("/repo/").map(|x| x.1).unwrap_or(f);
                    format!("{}:{}", f, l.line())
                })
                .unwrap_or_default();
            LAST_PANIC.with(|p| *p.borrow_mut() = Some(format!("{msg} @ {loc}")));
        } else {
            default(info);
        }
    }));
}

/// Catch a panic of the system under test inside an execution thread and
/// return its message (the panic hook stores it; nothing is printed).
pub fn catch<T>(f: impl FnOnce() -> T) -> Result<T, String> {
    let was = QUIET.with(|q| q.replace(true));
    let r = catch_unwind(AssertUnwindSafe(f));
    QUIET.with(|q| q.set(was));
    r.map_err(|_| {
        LAST_PANIC
            .with(|p| p.borrow_mut().take())
            .unwrap_or_else(|| "<panic without message>".into())
    })
}

#[derive(Debug, Clone)]
pub struct ThreadStats {
    /// number of getrandom calls served on the execution thread
    pub draws: u32,
    /// first 16 bytes served (the thread's hash key pair)
    pub first_key: u128,
}

/// Execute `f` as one simulated execution: on a fresh OS thread whose hash keys
/// come from `seed`. A panic inside `f` is caught and returned as `Err(text)`.
pub fn execution<T: Send>(
    seed: u64,
    f: impl FnOnce() -> T + Send,
) -> (Result<T, String>, ThreadStats) {
    std::thread::scope(|scope| {
        std::thread::Builder::new()
            .stack_size(64 << 20)
            .spawn_scoped(scope, move || {
                SEEDED.with(|s| s.set(true));
                let mut st = seed ^ 0xD1B5_4A32_D192_ED03;
                // decorrelate neighbouring seeds
                let _ = splitmix(&mut st);
                STATE.with(|s| s.set(st));
                QUIET.with(|q| q.set(true));
                let r = catch_unwind(AssertUnwindSafe(f));
                QUIET.with(|q| q.set(false));
                let r = r.map_err(|_| {
                    LAST_PANIC
                        .with(|p| p.borrow_mut().take())
                        .unwrap_or_else(|| "<panic without message>".into())
                });
                let stats = ThreadStats {
                    draws: DRAWS.with(|d| d.get()),
                    first_key: FIRST_KEY.with(|k| k.get()),
                };
                (r, stats)
            })
            .expect("spawn execution thread")
            .join()
            .expect("execution thread itself never panics")
    })
}

/// Start-up canary: the seam must be effective, otherwise nothing the
/// simulator reports about hash order means anything.
pub fn canary() -> Result<(), String> {
    use std::collections::HashSet;
    let order = |seed: u64| {
        execution(seed, || {
            let h: HashSet<u32> = (0..12).collect();
            let a: Vec<u32> = h.iter().copied().collect();
            // a second map on the same thread gets an incremented key
            let h2: HashSet<u32> = (0..12).collect();
            let b: Vec<u32> = h2.iter().copied().collect();
            (a, b)
        })
    };
    let (a, sa) = order(1);
    let (b, _) = order(1);
    let (c, _) = order(2);
    let (a, b, c) = (a.unwrap(), b.unwrap(), c.unwrap());
    if is_real_entropy() {
        return Ok(());
    }
    if sa.draws == 0 {
        return Err("std did not call the interposed getrandom (draw counter is 0)".into());
    }
    if a != b {
        return Err(format!("equal seeds gave different orders: {a:?} vs {b:?}"));
    }
    if a.0 == c.0 && a.1 == c.1 {
        return Err("different seeds gave identical orders".into());
    }
    if a.0 == a.1 {
        return Err("two maps on one thread iterate identically (keys not advanced)".into());
    }
    Ok(())
}
