//! Small executable reference models of facts about a registry that the
//! oracles need: named types, reachability for recursive derives, and the
//! references a faithful generator has to follow (C10's must/may split).

use std::collections::{BTreeMap, BTreeSet};

use scale_info::{form::PortableForm, PortableRegistry, Type, TypeDef};

pub fn is_named(t: &Type<PortableForm>) -> bool {
    t.path.segments.len() >= 2
}

pub fn is_generated_kind(t: &Type<PortableForm>) -> bool {
    is_named(t) && matches!(t.type_def, TypeDef::Composite(_) | TypeDef::Variant(_))
}

pub fn path_text(t: &Type<PortableForm>) -> String {
    t.path.segments.join("::")
}

/// Distinct paths of named types, in registry order of first occurrence.
pub fn named_paths(reg: &PortableRegistry) -> Vec<String> {
    let mut seen = BTreeSet::new();
    let mut out = vec![];
    for t in &reg.types {
        if is_named(&t.ty) {
            let p = path_text(&t.ty);
            if seen.insert(p.clone()) {
                out.push(p);
            }
        }
    }
    out
}

/// path -> positions carrying it
pub fn ids_by_path(reg: &PortableRegistry) -> BTreeMap<String, Vec<u32>> {
    let mut m: BTreeMap<String, Vec<u32>> = BTreeMap::new();
    for (i, t) in reg.types.iter().enumerate() {
        if !t.ty.path.segments.is_empty() {
            m.entry(path_text(&t.ty)).or_default().push(i as u32);
        }
    }
    m
}

/// Direct references of an entry: (type parameters, structural children).
pub fn children(t: &Type<PortableForm>) -> (Vec<u32>, Vec<u32>) {
    let params: Vec<u32> = t.type_params.iter().filter_map(|p| p.ty.map(|x| x.id)).collect();
    let mut kids = vec![];
    match &t.type_def {
        TypeDef::Composite(c) => kids.extend(c.fields.iter().map(|f| f.ty.id)),
        TypeDef::Variant(v) => {
            for var in &v.variants {
                kids.extend(var.fields.iter().map(|f| f.ty.id));
            }
        }
        TypeDef::Sequence(s) => kids.push(s.type_param.id),
        TypeDef::Array(a) => kids.push(a.type_param.id),
        TypeDef::Tuple(t) => kids.extend(t.fields.iter().map(|f| f.id)),
        TypeDef::Compact(c) => kids.push(c.type_param.id),
        TypeDef::Primitive(_) => {}
        TypeDef::BitSequence(_) => {}
    }
    (params, kids)
}

/// Ids reachable from `root` through fields, variant fields and
/// sequence/array/tuple/compact elements (`structural`), and additionally
/// through type parameters (`with_params`).
pub struct Reach {
    pub structural: BTreeSet<u32>,
    pub with_params: BTreeSet<u32>,
}

pub fn reach(reg: &PortableRegistry, root: u32) -> Reach {
    fn go(reg: &PortableRegistry, id: u32, follow_params: bool, acc: &mut BTreeSet<u32>) {
        if !acc.insert(id) {
            return;
        }
        let Some(t) = reg.resolve(id) else { return };
        let (params, kids) = children(t);
        if follow_params {
            for p in params {
                go(reg, p, follow_params, acc);
            }
        }
        for k in kids {
            go(reg, k, follow_params, acc);
        }
    }
    let mut s = BTreeSet::new();
    go(reg, root, false, &mut s);
    let mut w = BTreeSet::new();
    go(reg, root, true, &mut w);
    Reach {
        structural: s,
        with_params: w,
    }
}
