//! Observation helpers shared by the engines: run the real generator and
//! normalise what it returns into comparable text.

use std::collections::{BTreeMap, BTreeSet};

use scale_info::PortableRegistry;
use scale_typegen::typegen::ir::ToTokensWithSettings;
use scale_typegen::typegen::validation::validate_substitutes_and_derives_against_registry;
use scale_typegen::utils::ensure_unique_type_paths;
use scale_typegen::{
    DerivesRegistry, TypeGenerator, TypeGeneratorSettings, TypeSubstitutes, TypegenError,
};

use crate::model::{nospace, tokens_of};

pub fn err_variant(e: &TypegenError) -> &'static str {
    match e {
        TypegenError::SynParseError(_) => "SynParseError",
        TypegenError::InvalidFields(_) => "InvalidFields",
        TypegenError::InvalidType(_) => "InvalidType",
        TypegenError::CompactPathNone => "CompactPathNone",
        TypegenError::DecodedBitsPathNone => "DecodedBitsPathNone",
        TypegenError::TypeNotFound(_) => "TypeNotFound",
        TypegenError::InvalidSubstitute(_) => "InvalidSubstitute",
        TypegenError::SettingsValidation(_) => "SettingsValidation",
        TypegenError::DuplicateTypePath(_) => "DuplicateTypePath",
        TypegenError::RegistryTypeIdsInvalid { .. } => "RegistryTypeIdsInvalid",
        _ => "UnknownVariant",
    }
}

pub fn err_text(e: &TypegenError) -> String {
    format!("{}: {}", err_variant(e), e)
}

/// generate + emit; `Err` carries "Variant: message".
/// A panic is reported as `Err("PANIC: message @ file:line")`.
pub fn gen_tokens(reg: &PortableRegistry, settings: &TypeGeneratorSettings) -> Result<String, String> {
    crate::entropy::catch(|| {
        let g = TypeGenerator::new(reg, settings);
        match g.generate_types_mod() {
            Ok(m) => Ok(m.to_token_stream(settings).to_string()),
            Err(e) => Err(err_text(&e)),
        }
    })
    .unwrap_or_else(|p| Err(format!("PANIC: {p}")))
}

pub fn dedup(reg: &PortableRegistry) -> Result<PortableRegistry, String> {
    crate::entropy::catch(|| {
        let mut r = reg.clone();
        match ensure_unique_type_paths(&mut r) {
            Ok(()) => Ok(r),
            Err(e) => Err(err_text(&e)),
        }
    })
    .unwrap_or_else(|p| Err(format!("PANIC: {p}")))
}

/// Paths of a registry after de-duplication, as the comparable "which names were given".
pub fn path_listing(reg: &PortableRegistry) -> String {
    let mut s = String::new();
    for t in &reg.types {
        s.push_str(&format!("{}={};", t.id, t.ty.path.segments.join("::")));
    }
    s
}

/// Validation result normalised to ordered sets (the property: "compared as sets"),
/// plus the raw vector orders as they came out (reach measure only) and a flag
/// whether some path occurred twice in a vector.
#[derive(Debug, Clone, PartialEq, Eq)]
pub struct ValidationObs {
    pub ok: bool,
    pub derives: BTreeMap<String, BTreeSet<String>>,
    pub attrs: BTreeMap<String, BTreeSet<String>>,
    pub subs: BTreeSet<(String, String)>,
    pub repeated_path: Option<String>,
    pub raw_order: String,
    /// the three vectors entry by entry, sorted (a multiset: an entry listed twice stays twice)
    pub entries: Vec<String>,
}

impl ValidationObs {
    pub fn normalised(&self) -> String {
        // "compared as sets": the order of the vectors is dropped, their entries are kept as
        // they are (whether a path may be listed twice is C11's business, not C06's)
        format!("ok={} entries={:?}", self.ok, self.entries)
    }
}

pub fn validation(
    subs: &TypeSubstitutes,
    derives: &DerivesRegistry,
    reg: &PortableRegistry,
) -> ValidationObs {
    let mut o = ValidationObs {
        ok: true,
        derives: BTreeMap::new(),
        attrs: BTreeMap::new(),
        subs: BTreeSet::new(),
        repeated_path: None,
        raw_order: String::new(),
        entries: vec![],
    };
    if let Err(e) = validate_substitutes_and_derives_against_registry(subs, derives, reg) {
        o.ok = false;
        let mut raw = String::new();
        for (p, set) in &e.derives_for_unknown_types {
            let k = nospace(&tokens_of(p));
            raw.push_str(&k);
            raw.push('[');
            for d in set {
                raw.push_str(&nospace(&tokens_of(d)));
                raw.push(',');
            }
            raw.push(']');
            let v: BTreeSet<String> = set.iter().map(|d| nospace(&tokens_of(d))).collect();
            o.entries.push(format!("derives {k} {v:?}"));
            if let Some(old) = o.derives.get_mut(&k) {
                old.extend(v);
                o.repeated_path = Some(format!("derives:{k}"));
            } else {
                o.derives.insert(k.clone(), v);
            }
        }
        raw.push('|');
        for (p, set) in &e.attributes_for_unknown_types {
            let k = nospace(&tokens_of(p));
            raw.push_str(&k);
            raw.push('[');
            for d in set {
                raw.push_str(&nospace(&tokens_of(d)));
                raw.push(',');
            }
            raw.push(']');
            let v: BTreeSet<String> = set.iter().map(|d| nospace(&tokens_of(d))).collect();
            o.entries.push(format!("attrs {k} {v:?}"));
            if let Some(old) = o.attrs.get_mut(&k) {
                old.extend(v);
                o.repeated_path = Some(format!("attrs:{k}"));
            } else {
                o.attrs.insert(k.clone(), v);
            }
        }
        raw.push('|');
        for (p, t) in &e.substitutes_for_unknown_types {
            let k = (nospace(&tokens_of(p)), nospace(&tokens_of(t)));
            raw.push_str(&k.0);
            raw.push(',');
            o.entries.push(format!("subs {} {}", k.0, k.1));
            if !o.subs.insert(k.clone()) {
                o.repeated_path = Some(format!("subs:{}", k.0));
            }
        }
        o.raw_order = raw;
        o.entries.sort();
    }
    o
}

/// Item-level derive and attribute lists of a generated module, read back from
/// the emitted tokens (the end-to-end observable for derives).
#[derive(Debug, Clone, PartialEq, Eq)]
pub struct ItemAttrs {
    /// module path below the root + item ident, e.g. `a::b::Foo`
    pub path: String,
    pub derives: Vec<String>,
    pub attrs: Vec<String>,
}

pub fn item_attrs(tokens: &str) -> Result<Vec<ItemAttrs>, String> {
    let file = syn::parse_file(tokens).map_err(|e| format!("output does not parse: {e}"))?;
    let mut out = vec![];
    fn walk(items: &[syn::Item], prefix: &str, depth: usize, out: &mut Vec<ItemAttrs>) {
        for it in items {
            match it {
                syn::Item::Mod(m) => {
                    if let Some((_, content)) = &m.content {
                        let p = if depth == 0 {
                            String::new()
                        } else if prefix.is_empty() {
                            m.ident.to_string()
                        } else {
                            format!("{prefix}::{}", m.ident)
                        };
                        walk(content, &p, depth + 1, out);
                    }
                }
                syn::Item::Struct(s) => push(&s.attrs, &s.ident, prefix, out),
                syn::Item::Enum(e) => push(&e.attrs, &e.ident, prefix, out),
                _ => {}
            }
        }
    }
    fn push(attrs: &[syn::Attribute], ident: &syn::Ident, prefix: &str, out: &mut Vec<ItemAttrs>) {
        let mut derives = vec![];
        let mut others = vec![];
        for a in attrs {
            if a.path().is_ident("doc") {
                continue;
            }
            if a.path().is_ident("derive") {
                let list = a
                    .parse_args_with(
                        syn::punctuated::Punctuated::<syn::Path, syn::Token![,]>::parse_terminated,
                    )
                    .map(|p| p.into_iter().map(|x| tokens_of(&x)).collect::<Vec<_>>())
                    .unwrap_or_else(|_| vec![format!("<unparsable derive list {}>", tokens_of(a))]);
                derives.extend(list);
            } else {
                others.push(tokens_of(a));
            }
        }
        let path = if prefix.is_empty() {
            ident.to_string()
        } else {
            format!("{prefix}::{ident}")
        };
        out.push(ItemAttrs {
            path,
            derives,
            attrs: others,
        });
    }
    walk(&file.items, "", 0, &mut out);
    Ok(out)
}

/// "free of duplicates": no two entries of one list are the same tokens.
pub fn dupfree(list: &[String]) -> Result<(), String> {
    let mut seen = BTreeSet::new();
    for s in list {
        if !seen.insert(nospace(s)) {
            return Err(format!("duplicate entry {s}"));
        }
    }
    Ok(())
}

/// "sorted": the lists of all items follow one and the same strict total order. Which order is
/// the implementation's choice (today: by token string); what cannot happen under any order is
/// that `a` precedes `b` in one list and `b` precedes `a` in another. `before` accumulates the
/// precedence pairs seen so far.
pub fn consistent_order(
    list: &[String],
    before: &mut BTreeSet<(String, String)>,
) -> Result<(), String> {
    let l: Vec<String> = list.iter().map(|s| nospace(s)).collect();
    for i in 0..l.len() {
        for j in i + 1..l.len() {
            if before.contains(&(l[j].clone(), l[i].clone())) {
                return Err(format!(
                    "{} precedes {} here, but follows it in another list of the same output: the lists are not sorted by one order",
                    list[i], list[j]
                ));
            }
            before.insert((l[i].clone(), l[j].clone()));
        }
    }
    Ok(())
}
