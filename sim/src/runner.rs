//! Deterministic parallel driver: run indices 0..n are executed by a pool of
//! workers; results are returned in index order, so nothing downstream depends
//! on which worker ran what, or on the worker count.

use std::sync::atomic::{AtomicU64, Ordering};
use std::sync::Mutex;

pub fn workers_from_env() -> usize {
    std::env::var("VERIF_WORKERS")
        .ok()
        .and_then(|s| s.parse().ok())
        .unwrap_or_else(|| {
            std::thread::available_parallelism()
                .map(|n| n.get())
                .unwrap_or(4)
        })
        .max(1)
}

pub fn par_runs<R: Send>(n: u64, workers: usize, f: impl Fn(u64) -> R + Sync) -> Vec<R> {
    let next = AtomicU64::new(0);
    let out: Mutex<Vec<(u64, R)>> = Mutex::new(Vec::with_capacity(n as usize));
    std::thread::scope(|s| {
        for _ in 0..workers.min(n.max(1) as usize) {
            s.spawn(|| {
                let mut local = Vec::new();
                loop {
                    let i = next.fetch_add(1, Ordering::Relaxed);
                    if i >= n {
                        break;
                    }
                    local.push((i, f(i)));
                }
                out.lock().unwrap().extend(local);
            });
        }
    });
    let mut v = out.into_inner().unwrap();
    v.sort_by_key(|x| x.0);
    v.into_iter().map(|x| x.1).collect()
}
