//! Seeded generator of well-formed registries.
//!
//! A small program of Rust-like struct/enum definitions (nested modules,
//! generics, unused parameters, recursion through Box/Vec/Option, compact
//! fields, std containers, bit vectors, coincidences between generic arguments
//! and concrete component types) is drawn from the run's PRNG and then
//! *registered the way scale-info registers types*: ids interned pre-order by
//! type identity (Box<T> = T, Vec<T> = [T], String = str), type parameters
//! before fields, fields in declaration order, `type_name` as the derive macro
//! renders it. `selftest()` checks this mini scale-info against the real
//! `#[derive(TypeInfo)]` output for mirrored definitions, so that "well-formed"
//! keeps meaning "scale-info could have produced it".

use std::collections::BTreeMap;

use scale_info::{
    form::PortableForm, interner::UntrackedSymbol, Field, Path, PortableRegistry, PortableType,
    Type, TypeDef, TypeDefArray, TypeDefBitSequence, TypeDefCompact, TypeDefComposite,
    TypeDefPrimitive, TypeDefSequence, TypeDefTuple, TypeDefVariant, TypeParameter, Variant,
};

use crate::rng::Rng;

#[derive(Clone, Debug, PartialEq, Eq, PartialOrd, Ord)]
pub enum Ty {
    Prim(Prim),
    Param(usize),
    Adt(usize, Vec<Ty>),
    Vec(Box<Ty>),
    Array(Box<Ty>, u32),
    Tuple(Vec<Ty>),
    Opt(Box<Ty>),
    Res(Box<Ty>, Box<Ty>),
    Boxed(Box<Ty>),
    Compact(Box<Ty>),
    Map(Box<Ty>, Box<Ty>),
    Set(Box<Ty>),
    /// store primitive, lsb order?
    BitVec(Prim, bool),
    Phantom(Box<Ty>),
    /// bitvec::order::{Lsb0, Msb0}
    BitOrder(bool),
}

#[derive(Clone, Copy, Debug, PartialEq, Eq, PartialOrd, Ord)]
pub enum Prim {
    Bool,
    Char,
    Str,
    U8,
    U16,
    U32,
    U64,
    U128,
    I8,
    I16,
    I32,
    I64,
    I128,
}

impl Prim {
    fn def(self) -> TypeDefPrimitive {
        match self {
            Prim::Bool => TypeDefPrimitive::Bool,
            Prim::Char => TypeDefPrimitive::Char,
            Prim::Str => TypeDefPrimitive::Str,
            Prim::U8 => TypeDefPrimitive::U8,
            Prim::U16 => TypeDefPrimitive::U16,
            Prim::U32 => TypeDefPrimitive::U32,
            Prim::U64 => TypeDefPrimitive::U64,
            Prim::U128 => TypeDefPrimitive::U128,
            Prim::I8 => TypeDefPrimitive::I8,
            Prim::I16 => TypeDefPrimitive::I16,
            Prim::I32 => TypeDefPrimitive::I32,
            Prim::I64 => TypeDefPrimitive::I64,
            Prim::I128 => TypeDefPrimitive::I128,
        }
    }
    fn text(self) -> &'static str {
        match self {
            Prim::Bool => "bool",
            Prim::Char => "char",
            Prim::Str => "String",
            Prim::U8 => "u8",
            Prim::U16 => "u16",
            Prim::U32 => "u32",
            Prim::U64 => "u64",
            Prim::U128 => "u128",
            Prim::I8 => "i8",
            Prim::I16 => "i16",
            Prim::I32 => "i32",
            Prim::I64 => "i64",
            Prim::I128 => "i128",
        }
    }
}

#[derive(Clone, Debug)]
pub struct FieldDef {
    pub name: Option<String>,
    pub ty: Ty,
    pub compact: bool,
}

#[derive(Clone, Debug)]
pub enum Fields {
    Unit,
    Named(Vec<FieldDef>),
    Unnamed(Vec<FieldDef>),
}

#[derive(Clone, Debug)]
pub struct VariantDef {
    pub name: String,
    pub index: u8,
    pub fields: Fields,
    pub docs: Vec<String>,
}

#[derive(Clone, Debug)]
pub enum Body {
    Struct(Fields),
    Enum(Vec<VariantDef>),
}

#[derive(Clone, Debug)]
pub struct Def {
    pub module: Vec<String>,
    pub name: String,
    pub params: Vec<String>,
    /// parameters that some field uses as `#[codec(compact)] f: T`: only `HasCompact`
    /// arguments (unsigned integers, `()`) may be supplied for them
    pub compactable: Vec<bool>,
    pub body: Body,
    pub docs: Vec<String>,
}

#[derive(Clone, Debug)]
pub struct Program {
    pub defs: Vec<Def>,
    /// closed types registered as roots, in order
    pub roots: Vec<Ty>,
}

// ---------------------------------------------------------------------------
// rendering of a type as the derive macro's `type_name`
// ---------------------------------------------------------------------------

pub fn render(ty: &Ty, defs: &[Def], params: &[String]) -> String {
    match ty {
        Ty::Prim(p) => p.text().to_string(),
        Ty::Param(i) => params[*i].clone(),
        Ty::Adt(d, args) => {
            if args.is_empty() {
                defs[*d].name.clone()
            } else {
                format!(
                    "{}<{}>",
                    defs[*d].name,
                    args.iter().map(|a| render(a, defs, params)).collect::<Vec<_>>().join(", ")
                )
            }
        }
        Ty::Vec(t) => format!("Vec<{}>", render(t, defs, params)),
        Ty::Array(t, n) => format!("[{}; {}]", render(t, defs, params), n),
        Ty::Tuple(ts) => match ts.len() {
            0 => "()".to_string(),
            1 => format!("({},)", render(&ts[0], defs, params)),
            _ => format!(
                "({})",
                ts.iter().map(|a| render(a, defs, params)).collect::<Vec<_>>().join(", ")
            ),
        },
        Ty::Opt(t) => format!("Option<{}>", render(t, defs, params)),
        Ty::Res(a, b) => format!("Result<{}, {}>", render(a, defs, params), render(b, defs, params)),
        Ty::Boxed(t) => format!("Box<{}>", render(t, defs, params)),
        Ty::Compact(t) => format!("Compact<{}>", render(t, defs, params)),
        Ty::Map(k, v) => format!("BTreeMap<{}, {}>", render(k, defs, params), render(v, defs, params)),
        Ty::Set(t) => format!("BTreeSet<{}>", render(t, defs, params)),
        Ty::BitVec(s, lsb) => format!("BitVec<{}, {}>", s.text(), if *lsb { "Lsb0" } else { "Msb0" }),
        Ty::Phantom(t) => format!("PhantomData<{}>", render(t, defs, params)),
        Ty::BitOrder(lsb) => if *lsb { "Lsb0" } else { "Msb0" }.to_string(),
    }
}

fn subst(ty: &Ty, args: &[Ty]) -> Ty {
    match ty {
        Ty::Param(i) => args[*i].clone(),
        Ty::Prim(_) | Ty::BitVec(..) | Ty::BitOrder(_) => ty.clone(),
        Ty::Adt(d, a) => Ty::Adt(*d, a.iter().map(|x| subst(x, args)).collect()),
        Ty::Vec(t) => Ty::Vec(Box::new(subst(t, args))),
        Ty::Array(t, n) => Ty::Array(Box::new(subst(t, args)), *n),
        Ty::Tuple(ts) => Ty::Tuple(ts.iter().map(|x| subst(x, args)).collect()),
        Ty::Opt(t) => Ty::Opt(Box::new(subst(t, args))),
        Ty::Res(a, b) => Ty::Res(Box::new(subst(a, args)), Box::new(subst(b, args))),
        Ty::Boxed(t) => Ty::Boxed(Box::new(subst(t, args))),
        Ty::Compact(t) => Ty::Compact(Box::new(subst(t, args))),
        Ty::Map(k, v) => Ty::Map(Box::new(subst(k, args)), Box::new(subst(v, args))),
        Ty::Set(t) => Ty::Set(Box::new(subst(t, args))),
        Ty::Phantom(t) => Ty::Phantom(Box::new(subst(t, args))),
    }
}

/// Type identity as scale-info sees it (`TypeInfo::Identity`): `Box<T>` is `T` and every
/// `PhantomData<_>` is `PhantomData<()>` - at the top level only. `Vec<Box<X>>` and `Vec<X>` are
/// different Rust types with different `TypeId`s and get two (structurally identical) entries.
fn identity(ty: &Ty) -> Ty {
    match ty {
        Ty::Boxed(t) => identity(t),
        Ty::Phantom(_) => Ty::Phantom(Box::new(Ty::Tuple(vec![]))),
        other => other.clone(),
    }
}

// ---------------------------------------------------------------------------
// the mini scale-info
// ---------------------------------------------------------------------------

struct Interner<'a> {
    defs: &'a [Def],
    ids: BTreeMap<Ty, u32>,
    types: Vec<Option<Type<PortableForm>>>,
}

fn sym(id: u32) -> UntrackedSymbol<core::any::TypeId> {
    UntrackedSymbol::from(id)
}

impl<'a> Interner<'a> {
    fn reg(&mut self, ty: &Ty) -> u32 {
        let key = identity(ty);
        if let Some(id) = self.ids.get(&key) {
            return *id;
        }
        let id = self.types.len() as u32;
        self.ids.insert(key.clone(), id);
        self.types.push(None);
        let t = self.build(&key);
        self.types[id as usize] = Some(t);
        id
    }

    fn plain(def: TypeDef<PortableForm>) -> Type<PortableForm> {
        Type {
            path: Path { segments: vec![] },
            type_params: vec![],
            type_def: def,
            docs: vec![],
        }
    }

    fn anon_field(&mut self, ty: &Ty) -> Field<PortableForm> {
        Field {
            name: None,
            ty: sym(self.reg(ty)),
            type_name: None,
            docs: vec![],
        }
    }

    fn prelude(
        &mut self,
        name: &str,
        params: &[(&str, &Ty)],
        def: impl FnOnce(&mut Self) -> TypeDef<PortableForm>,
    ) -> Type<PortableForm> {
        let type_params = params
            .iter()
            .map(|(n, t)| TypeParameter {
                name: n.to_string(),
                ty: Some(sym(self.reg(t))),
            })
            .collect();
        let type_def = def(self);
        Type {
            path: Path {
                segments: vec![name.to_string()],
            },
            type_params,
            type_def,
            docs: vec![],
        }
    }

    fn fields(&mut self, f: &Fields, args: &[Ty], params: &[String]) -> Vec<Field<PortableForm>> {
        let list = match f {
            Fields::Unit => return vec![],
            Fields::Named(l) | Fields::Unnamed(l) => l,
        };
        let mut out = vec![];
        for fd in list {
            // the derive macro drops PhantomData fields
            if matches!(fd.ty, Ty::Phantom(_)) {
                continue;
            }
            let concrete = subst(&fd.ty, args);
            let reg_ty = if fd.compact {
                Ty::Compact(Box::new(concrete))
            } else {
                concrete
            };
            out.push(Field {
                name: fd.name.clone(),
                ty: sym(self.reg(&reg_ty)),
                type_name: Some(render(&fd.ty, self.defs, params)),
                docs: vec![],
            });
        }
        out
    }

    fn build(&mut self, ty: &Ty) -> Type<PortableForm> {
        match ty {
            Ty::Param(_) => panic!("harness: open type registered"),
            Ty::Boxed(_) => unreachable!("identity() removes a top-level Box"),
            Ty::Prim(p) => Self::plain(TypeDef::Primitive(p.def())),
            Ty::Vec(t) => {
                let e = self.reg(t);
                Self::plain(TypeDef::Sequence(TypeDefSequence { type_param: sym(e) }))
            }
            Ty::Array(t, n) => {
                let e = self.reg(t);
                Self::plain(TypeDef::Array(TypeDefArray {
                    len: *n,
                    type_param: sym(e),
                }))
            }
            Ty::Tuple(ts) => {
                let fields = ts.iter().map(|t| sym(self.reg(t))).collect();
                Self::plain(TypeDef::Tuple(TypeDefTuple { fields }))
            }
            Ty::Compact(t) => {
                let e = self.reg(t);
                Self::plain(TypeDef::Compact(TypeDefCompact { type_param: sym(e) }))
            }
            Ty::BitVec(store, lsb) => {
                let s = self.reg(&Ty::Prim(*store));
                let o = self.reg(&Ty::BitOrder(*lsb));
                Self::plain(TypeDef::BitSequence(TypeDefBitSequence {
                    bit_store_type: sym(s),
                    bit_order_type: sym(o),
                }))
            }
            Ty::BitOrder(lsb) => Type {
                path: Path {
                    segments: vec![
                        "bitvec".into(),
                        "order".into(),
                        if *lsb { "Lsb0" } else { "Msb0" }.into(),
                    ],
                },
                type_params: vec![],
                type_def: TypeDef::Composite(TypeDefComposite { fields: vec![] }),
                docs: vec![],
            },
            Ty::Phantom(_) => Type {
                path: Path {
                    segments: vec!["PhantomData".into()],
                },
                type_params: vec![],
                type_def: TypeDef::Composite(TypeDefComposite { fields: vec![] }),
                docs: vec!["PhantomData placeholder, this type should be filtered out".into()],
            },
            Ty::Opt(t) => self.prelude("Option", &[("T", t)], |s| {
                TypeDef::Variant(TypeDefVariant {
                    variants: vec![
                        Variant {
                            name: "None".into(),
                            fields: vec![],
                            index: 0,
                            docs: vec![],
                        },
                        Variant {
                            name: "Some".into(),
                            fields: vec![s.anon_field(t)],
                            index: 1,
                            docs: vec![],
                        },
                    ],
                })
            }),
            Ty::Res(a, b) => self.prelude("Result", &[("T", a), ("E", b)], |s| {
                TypeDef::Variant(TypeDefVariant {
                    variants: vec![
                        Variant {
                            name: "Ok".into(),
                            fields: vec![s.anon_field(a)],
                            index: 0,
                            docs: vec![],
                        },
                        Variant {
                            name: "Err".into(),
                            fields: vec![s.anon_field(b)],
                            index: 1,
                            docs: vec![],
                        },
                    ],
                })
            }),
            Ty::Map(k, v) => self.prelude("BTreeMap", &[("K", k), ("V", v)], |s| {
                let inner = Ty::Vec(Box::new(Ty::Tuple(vec![(**k).clone(), (**v).clone()])));
                TypeDef::Composite(TypeDefComposite {
                    fields: vec![s.anon_field(&inner)],
                })
            }),
            Ty::Set(t) => self.prelude("BTreeSet", &[("T", t)], |s| {
                let inner = Ty::Vec(t.clone());
                TypeDef::Composite(TypeDefComposite {
                    fields: vec![s.anon_field(&inner)],
                })
            }),
            Ty::Adt(d, args) => {
                let def = &self.defs[*d];
                let mut segments = def.module.clone();
                segments.push(def.name.clone());
                let type_params = def
                    .params
                    .iter()
                    .zip(args.iter())
                    .map(|(n, a)| TypeParameter {
                        name: n.clone(),
                        ty: Some(sym(self.reg(a))),
                    })
                    .collect();
                let type_def = match &def.body {
                    Body::Struct(f) => TypeDef::Composite(TypeDefComposite {
                        fields: self.fields(f, args, &def.params),
                    }),
                    Body::Enum(vs) => TypeDef::Variant(TypeDefVariant {
                        variants: vs
                            .iter()
                            .map(|v| Variant {
                                name: v.name.clone(),
                                fields: self.fields(&v.fields, args, &def.params),
                                index: v.index,
                                docs: v.docs.clone(),
                            })
                            .collect(),
                    }),
                };
                Type {
                    path: Path { segments },
                    type_params,
                    type_def,
                    docs: def.docs.clone(),
                }
            }
        }
    }
}

pub fn registry_of(p: &Program) -> PortableRegistry {
    let mut i = Interner {
        defs: &p.defs,
        ids: BTreeMap::new(),
        types: vec![],
    };
    for r in &p.roots {
        i.reg(r);
    }
    PortableRegistry {
        types: i
            .types
            .into_iter()
            .enumerate()
            .map(|(id, t)| PortableType {
                id: id as u32,
                ty: t.expect("every interned type was built"),
            })
            .collect(),
    }
}

// ---------------------------------------------------------------------------
// seeded programs
// ---------------------------------------------------------------------------

const UINTS: &[Prim] = &[Prim::U8, Prim::U16, Prim::U32, Prim::U64, Prim::U128];
const PRIMS: &[Prim] = &[
    Prim::Bool,
    Prim::Char,
    Prim::Str,
    Prim::U8,
    Prim::U16,
    Prim::U32,
    Prim::U64,
    Prim::U128,
    Prim::I8,
    Prim::I16,
    Prim::I32,
    Prim::I64,
    Prim::I128,
];
/// a deliberately small pool, so that generic arguments and concrete field types coincide often
const COMMON: &[Prim] = &[Prim::U8, Prim::U32, Prim::Bool];

struct Gen<'a> {
    rng: &'a mut Rng,
    defs: Vec<Def>,
    /// compactable flags of the definition being generated
    cur_compactable: Vec<bool>,
}

fn has_compact_arg(rng: &mut Rng) -> Ty {
    if rng.chance(1, 4) {
        Ty::Tuple(vec![])
    } else {
        Ty::Prim(*rng.pick(UINTS))
    }
}

impl<'a> Gen<'a> {
    /// A type expression usable inside definition `me` (which has `nparams` parameters).
    /// Earlier definitions may be instantiated freely; `me` and later, non-generic ones only
    /// behind a heap indirection.
    fn ty(&mut self, me: usize, nparams: usize, n_defs: usize, depth: u32) -> Ty {
        let r = self.rng.below(100);
        let leaf = depth >= 3;
        if nparams > 0 && r < 28 {
            return Ty::Param(self.rng.usize_below(nparams));
        }
        if r < 50 || leaf {
            return if self.rng.chance(2, 3) {
                Ty::Prim(*self.rng.pick(COMMON))
            } else {
                Ty::Prim(*self.rng.pick(PRIMS))
            };
        }
        match r {
            50..=63 if me > 0 => {
                let d = self.rng.usize_below(me);
                let n = self.defs[d].params.len();
                let args = (0..n)
                    .map(|k| {
                        if self.defs[d].compactable[k] {
                            has_compact_arg(self.rng)
                        } else {
                            self.ty(me, nparams, n_defs, depth + 1)
                        }
                    })
                    .collect();
                Ty::Adt(d, args)
            }
            64..=70 => Ty::Vec(Box::new(self.ty(me, nparams, n_defs, depth + 1))),
            71..=75 => Ty::Opt(Box::new(self.ty(me, nparams, n_defs, depth + 1))),
            76..=79 => {
                // mostly small tuples, now and then up to arity 13
                let n = if self.rng.chance(1, 12) {
                    4 + self.rng.usize_below(10)
                } else {
                    self.rng.usize_below(4)
                };
                Ty::Tuple((0..n).map(|_| self.ty(me, nparams, n_defs, depth + 1)).collect())
            }
            80..=82 => Ty::Array(
                Box::new(self.ty(me, nparams, n_defs, depth + 1)),
                *self.rng.pick(&[0u32, 1, 2, 4, 32, 32, 256, 65_536, u32::MAX]),
            ),
            83..=85 => Ty::Boxed(Box::new(self.ty(me, nparams, n_defs, depth + 1))),
            86..=87 => Ty::Res(
                Box::new(self.ty(me, nparams, n_defs, depth + 1)),
                Box::new(self.ty(me, nparams, n_defs, depth + 1)),
            ),
            88..=89 => Ty::Map(
                Box::new(Ty::Prim(*self.rng.pick(UINTS))),
                Box::new(self.ty(me, nparams, n_defs, depth + 1)),
            ),
            90 => Ty::Set(Box::new(Ty::Prim(*self.rng.pick(UINTS)))),
            91..=92 => Ty::Compact(Box::new(Ty::Prim(*self.rng.pick(UINTS)))),
            93 => Ty::BitVec(*self.rng.pick(&[Prim::U8, Prim::U16, Prim::U32, Prim::U64]), self.rng.chance(1, 2)),
            94..=97 => {
                // recursion / forward reference behind a heap indirection
                let target = if self.rng.chance(1, 2) || me + 1 >= n_defs {
                    Ty::Adt(me, (0..nparams).map(Ty::Param).collect())
                } else {
                    // later definitions are referenced only when they turn out non-generic;
                    // recorded as a forward reference and patched in `program`
                    Ty::Adt(usize::MAX - self.rng.usize_below(n_defs - me - 1), vec![])
                };
                match self.rng.below(3) {
                    0 => Ty::Boxed(Box::new(target)),
                    1 => Ty::Vec(Box::new(target)),
                    _ => Ty::Opt(Box::new(Ty::Boxed(Box::new(target)))),
                }
            }
            _ => Ty::Prim(*self.rng.pick(COMMON)),
        }
    }

    fn fields(&mut self, me: usize, nparams: usize, n_defs: usize) -> Fields {
        let n = match self.rng.below(10) {
            0 => 0,
            1..=3 => 1,
            4..=6 => 2,
            7..=8 => 3,
            _ => 4 + self.rng.usize_below(3),
        };
        if n == 0 {
            return Fields::Unit;
        }
        let named = self.rng.chance(3, 5);
        let mut list = vec![];
        for k in 0..n {
            let mut ty = self.ty(me, nparams, n_defs, 0);
            let mut compact = false;
            if matches!(ty, Ty::Prim(p) if UINTS.contains(&p)) && self.rng.chance(1, 6) {
                compact = true;
            }
            // `#[codec(compact)] f: T` for a parameter reserved for HasCompact arguments,
            // and now and then the legal oddity `#[codec(compact)] f: ()`
            if nparams > 0 && self.rng.chance(1, 3) {
                if let Some(i) = (0..nparams).find(|i| self.cur_compactable[*i]) {
                    ty = Ty::Param(i);
                    compact = true;
                }
            }
            if self.rng.chance(1, 40) {
                ty = Ty::Tuple(vec![]);
                compact = true;
            }
            if nparams > 0 && self.rng.chance(1, 14) {
                // an explicit marker field; the derive macro filters it out
                ty = Ty::Phantom(Box::new(Ty::Param(self.rng.usize_below(nparams))));
                compact = false;
            }
            list.push(FieldDef {
                name: named.then(|| format!("f{k}")),
                ty,
                compact,
            });
        }
        if named {
            Fields::Named(list)
        } else {
            Fields::Unnamed(list)
        }
    }
}

fn patch_forward(ty: &mut Ty, me: usize, defs: &[Def]) {
    match ty {
        Ty::Adt(d, args) => {
            if *d > usize::MAX / 2 {
                let off = usize::MAX - *d;
                let target = me + 1 + off;
                // only non-generic later definitions may be referenced; otherwise fall back to u8
                if target < defs.len() && defs[target].params.is_empty() {
                    *d = target;
                } else {
                    *ty = Ty::Prim(Prim::U8);
                    return;
                }
            }
            for a in args {
                patch_forward(a, me, defs);
            }
        }
        Ty::Vec(t) | Ty::Opt(t) | Ty::Boxed(t) | Ty::Compact(t) | Ty::Set(t) | Ty::Phantom(t) | Ty::Array(t, _) => {
            patch_forward(t, me, defs)
        }
        Ty::Tuple(ts) => ts.iter_mut().for_each(|t| patch_forward(t, me, defs)),
        Ty::Res(a, b) | Ty::Map(a, b) => {
            patch_forward(a, me, defs);
            patch_forward(b, me, defs);
        }
        Ty::Prim(_) | Ty::Param(_) | Ty::BitVec(..) | Ty::BitOrder(_) => {}
    }
}

fn for_each_ty(def: &mut Def, f: &mut impl FnMut(&mut Ty)) {
    let mut on_fields = |fs: &mut Fields| match fs {
        Fields::Unit => {}
        Fields::Named(l) | Fields::Unnamed(l) => l.iter_mut().for_each(|fd| f(&mut fd.ty)),
    };
    match &mut def.body {
        Body::Struct(fs) => on_fields(fs),
        Body::Enum(vs) => vs.iter_mut().for_each(|v| on_fields(&mut v.fields)),
    }
}

pub fn program(rng: &mut Rng) -> Program {
    let n_defs = 2 + rng.usize_below(9);
    let modules: Vec<Vec<String>> = vec![
        vec!["gen".into()],
        vec!["gen".into(), "a".into()],
        vec!["gen".into(), "a".into(), "b".into()],
        vec!["gen".into(), "c".into()],
        vec!["other_crate".into(), "types".into()],
        vec!["gen".into(), "v1".into()],
        vec!["gen".into(), "v10".into()],
        vec!["gen".into(), "v1".into(), "x".into()],
        vec!["gen2".into()],
    ];
    let names = [
        "Foo", "Bar", "Baz", "Qux", "Node", "Item", "Call", "Event", "Data", "Info", "Wrapper", "Foo1", "Foo12", "Event2",
    ];
    let mut g = Gen {
        rng,
        defs: vec![],
        cur_compactable: vec![],
    };
    for i in 0..n_defs {
        let nparams = match g.rng.below(20) {
            0..=9 => 0,
            10..=15 => 1,
            16..=17 => 2,
            18 => 3,
            _ => 4 + g.rng.usize_below(3),
        };
        let params: Vec<String> = ["T", "U", "V", "W", "X", "Y"][..nparams]
            .iter()
            .map(|s| s.to_string())
            .collect();
        let compactable: Vec<bool> = (0..nparams).map(|_| g.rng.chance(1, 6)).collect();
        g.cur_compactable = compactable.clone();
        let module = g.rng.pick(&modules).clone();
        // the same identifier may recur in different modules (paths stay distinct)
        let base = g.rng.pick(&names).to_string();
        let name = if g
            .defs
            .iter()
            .any(|d| d.name == base && d.module == module)
        {
            format!("{base}{i}")
        } else {
            base
        };
        let docs = if g.rng.chance(1, 4) {
            vec![format!(" docs of {name}"), " second \"line\"".to_string()]
        } else {
            vec![]
        };
        let body = if g.rng.chance(3, 5) {
            Body::Struct(g.fields(i, nparams, n_defs))
        } else {
            let nv = g.rng.usize_below(5);
            let mut idx = 0u8;
            let mut vs = vec![];
            for v in 0..nv {
                if g.rng.chance(1, 5) {
                    idx = idx.saturating_add(1 + g.rng.below(20) as u8);
                }
                if v + 1 == nv && g.rng.chance(1, 10) {
                    idx = 255;
                }
                // an explicit index that equals the number of variants (the position a
                // generated marker variant would take)
                if v + 2 == nv && g.rng.chance(1, 6) && (nv as u8) > idx {
                    idx = nv as u8;
                }
                vs.push(VariantDef {
                    name: format!("V{v}"),
                    index: idx,
                    fields: g.fields(i, nparams, n_defs),
                    docs: if g.rng.chance(1, 5) {
                        vec![" variant docs".into()]
                    } else {
                        vec![]
                    },
                });
                idx = idx.saturating_add(1);
            }
            Body::Enum(vs)
        };
        g.defs.push(Def {
            module,
            name,
            params,
            compactable,
            body,
            docs,
        });
    }
    let mut defs = g.defs;
    let snapshot = defs.clone();
    for (i, d) in defs.iter_mut().enumerate() {
        for_each_ty(d, &mut |t| patch_forward(t, i, &snapshot));
    }
    // roots: every definition instantiated once or more, from a small argument pool so that
    // several instantiations share a path and arguments coincide with concrete field types
    let mut roots = vec![];
    let mut pool: Vec<Ty> = COMMON.iter().map(|p| Ty::Prim(*p)).collect();
    pool.push(Ty::Prim(Prim::U16));
    pool.push(Ty::Vec(Box::new(Ty::Prim(Prim::U8))));
    for (i, d) in defs.iter().enumerate() {
        let n_inst = if d.params.is_empty() {
            1
        } else {
            1 + rng.usize_below(3)
        };
        for _ in 0..n_inst {
            let args: Vec<Ty> = (0..d.params.len())
                .map(|k| {
                    if d.compactable[k] {
                        has_compact_arg(rng)
                    } else {
                        rng.pick(&pool).clone()
                    }
                })
                .collect();
            let t = Ty::Adt(i, args);
            if rng.chance(2, 3) || roots.is_empty() {
                roots.push(t.clone());
            }
            if d.params.is_empty() || rng.chance(1, 2) {
                pool.push(t);
            }
        }
    }
    rng.shuffle(&mut roots);
    Program { defs, roots }
}

pub fn random_registry(rng: &mut Rng) -> PortableRegistry {
    registry_of(&program(rng))
}

// ---------------------------------------------------------------------------
// fidelity self-test against the real derive macro
// ---------------------------------------------------------------------------

mod mirror {
    //! Real Rust definitions and the same definitions as a `Program`.
    #![allow(dead_code)]
    use super::*;
    use scale_info::TypeInfo;
    use bitvec::{order::Lsb0, vec::BitVec};
    use parity_scale_codec::Compact;
    use std::collections::{BTreeMap, BTreeSet};
    use std::marker::PhantomData;

    #[derive(TypeInfo)]
    pub struct Leaf {
        pub v: u8,
    }
    /// docs of Foo
    #[derive(TypeInfo)]
    pub struct Foo<T, U> {
        pub a: T,
        pub b: Vec<U>,
        pub c: Option<(T, u32)>,
        #[codec(compact)]
        pub d: u64,
        pub e: [u8; 4],
        pub f: Box<T>,
        pub g: BTreeMap<u32, Leaf>,
        pub h: Result<T, String>,
        pub i: (u8,),
        pub j: (),
        pub k: BTreeSet<u16>,
        pub l: Compact<u32>,
        pub _p: PhantomData<U>,
    }
    #[derive(TypeInfo)]
    pub enum En<T> {
        /// variant docs
        A,
        B(T, Box<En<T>>),
        #[codec(index = 9)]
        C { x: Vec<En<T>>, y: Option<Box<Leaf>> },
        D(BitVec<u8, Lsb0>),
    }
    #[derive(TypeInfo)]
    pub struct Tup<T>(pub T, pub u32, pub Foo<T, u32>);
    #[derive(TypeInfo)]
    pub struct Unit;
    #[derive(TypeInfo)]
    pub struct Twin {
        pub a: Vec<Box<Leaf>>,
        pub b: Vec<Leaf>,
        pub c: Option<Box<Leaf>>,
    }
    #[derive(TypeInfo)]
    pub struct Root {
        pub a: Foo<u8, u32>,
        pub b: Foo<u32, u32>,
        pub c: En<u8>,
        pub d: Tup<u32>,
        pub e: Tup<Leaf>,
        pub f: Unit,
        pub g: Twin,
    }

    pub fn real() -> PortableRegistry {
        let mut r = scale_info::Registry::new();
        r.register_type(&scale_info::MetaType::new::<Root>());
        r.register_type(&scale_info::MetaType::new::<En<bool>>());
        r.into()
    }

    fn nf(name: &str, ty: Ty) -> FieldDef {
        FieldDef {
            name: Some(name.into()),
            ty,
            compact: false,
        }
    }
    fn uf(ty: Ty) -> FieldDef {
        FieldDef {
            name: None,
            ty,
            compact: false,
        }
    }
    fn b(t: Ty) -> Box<Ty> {
        Box::new(t)
    }

    pub fn mirrored() -> Program {
        let module: Vec<String> = module_path!().split("::").map(|s| s.to_string()).collect();
        let p = |x| Ty::Prim(x);
        // indices: 0 Leaf, 1 Foo, 2 En, 3 Tup, 4 Unit, 5 Root
        let leaf = Def {
            module: module.clone(),
            name: "Leaf".into(),
            params: vec![],
            compactable: vec![],
            body: Body::Struct(Fields::Named(vec![nf("v", p(Prim::U8))])),
            docs: vec![],
        };
        let foo = Def {
            module: module.clone(),
            name: "Foo".into(),
            params: vec!["T".into(), "U".into()],
            compactable: vec![false, false],
            body: Body::Struct(Fields::Named(vec![
                nf("a", Ty::Param(0)),
                nf("b", Ty::Vec(b(Ty::Param(1)))),
                nf("c", Ty::Opt(b(Ty::Tuple(vec![Ty::Param(0), p(Prim::U32)])))),
                FieldDef {
                    name: Some("d".into()),
                    ty: p(Prim::U64),
                    compact: true,
                },
                nf("e", Ty::Array(b(p(Prim::U8)), 4)),
                nf("f", Ty::Boxed(b(Ty::Param(0)))),
                nf("g", Ty::Map(b(p(Prim::U32)), b(Ty::Adt(0, vec![])))),
                nf("h", Ty::Res(b(Ty::Param(0)), b(p(Prim::Str)))),
                nf("i", Ty::Tuple(vec![p(Prim::U8)])),
                nf("j", Ty::Tuple(vec![])),
                nf("k", Ty::Set(b(p(Prim::U16)))),
                nf("l", Ty::Compact(b(p(Prim::U32)))),
                nf("_p", Ty::Phantom(b(Ty::Param(1)))),
            ])),
            docs: vec!["docs of Foo".into()],
        };
        let en_t = |t: Ty| Ty::Adt(2, vec![t]);
        let en = Def {
            module: module.clone(),
            name: "En".into(),
            params: vec!["T".into()],
            compactable: vec![false],
            body: Body::Enum(vec![
                VariantDef {
                    name: "A".into(),
                    index: 0,
                    fields: Fields::Unit,
                    docs: vec!["variant docs".into()],
                },
                VariantDef {
                    name: "B".into(),
                    index: 1,
                    fields: Fields::Unnamed(vec![uf(Ty::Param(0)), uf(Ty::Boxed(b(en_t(Ty::Param(0)))))]),
                    docs: vec![],
                },
                VariantDef {
                    name: "C".into(),
                    index: 9,
                    fields: Fields::Named(vec![
                        nf("x", Ty::Vec(b(en_t(Ty::Param(0))))),
                        nf("y", Ty::Opt(b(Ty::Boxed(b(Ty::Adt(0, vec![])))))),
                    ]),
                    docs: vec![],
                },
                VariantDef {
                    name: "D".into(),
                    index: 3,
                    fields: Fields::Unnamed(vec![uf(Ty::BitVec(Prim::U8, true))]),
                    docs: vec![],
                },
            ]),
            docs: vec![],
        };
        let tup = Def {
            module: module.clone(),
            name: "Tup".into(),
            params: vec!["T".into()],
            compactable: vec![false],
            body: Body::Struct(Fields::Unnamed(vec![
                uf(Ty::Param(0)),
                uf(p(Prim::U32)),
                uf(Ty::Adt(1, vec![Ty::Param(0), p(Prim::U32)])),
            ])),
            docs: vec![],
        };
        let unit = Def {
            module: module.clone(),
            name: "Unit".into(),
            params: vec![],
            compactable: vec![],
            body: Body::Struct(Fields::Unit),
            docs: vec![],
        };
        let root = Def {
            module,
            name: "Root".into(),
            params: vec![],
            compactable: vec![],
            body: Body::Struct(Fields::Named(vec![
                nf("a", Ty::Adt(1, vec![p(Prim::U8), p(Prim::U32)])),
                nf("b", Ty::Adt(1, vec![p(Prim::U32), p(Prim::U32)])),
                nf("c", en_t(p(Prim::U8))),
                nf("d", Ty::Adt(3, vec![p(Prim::U32)])),
                nf("e", Ty::Adt(3, vec![Ty::Adt(0, vec![])])),
                nf("f", Ty::Adt(4, vec![])),
                nf("g", Ty::Adt(6, vec![])),
            ])),
            docs: vec![],
        };
        let twin = Def {
            module: root.module.clone(),
            name: "Twin".into(),
            params: vec![],
            compactable: vec![],
            body: Body::Struct(Fields::Named(vec![
                nf("a", Ty::Vec(b(Ty::Boxed(b(Ty::Adt(0, vec![])))))),
                nf("b", Ty::Vec(b(Ty::Adt(0, vec![])))),
                nf("c", Ty::Opt(b(Ty::Boxed(b(Ty::Adt(0, vec![])))))),
            ])),
            docs: vec![],
        };
        Program {
            defs: vec![leaf, foo, en, tup, unit, root, twin],
            roots: vec![Ty::Adt(5, vec![]), en_t(Ty::Prim(Prim::Bool))],
        }
    }
}

/// Mini scale-info == real scale-info on the mirrored definitions?
pub fn selftest() -> Result<(), String> {
    let real = mirror::real();
    let mine = registry_of(&mirror::mirrored());
    if real == mine {
        return Ok(());
    }
    // locate the first difference for the report
    for (a, b) in real.types.iter().zip(mine.types.iter()) {
        if a != b {
            // the spelling of BitVec / Compact type names depends on how the source spells the path
            return Err(format!(
                "registry generator deviates from scale-info at id {}:\nreal: {:?}\nmine: {:?}",
                a.id, a.ty, b.ty
            ));
        }
    }
    Err(format!(
        "registry generator deviates from scale-info: {} real types vs {} generated",
        real.types.len(),
        mine.types.len()
    ))
}
