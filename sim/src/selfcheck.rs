//! Determinism proof for the simulator itself: the same VERIF_SEED must give
//! the same event log (digest over every run's normalised log, raw hash
//! iteration orders included) at 1 worker and at 16 workers, in separate
//! processes; a different VERIF_SEED must give a different log.

use crate::report::{Ctx, Tier};

fn run_child(prop: &str, seed: u64, workers: usize, scale: u64, dir: &std::path::Path) -> Result<(String, u64), String> {
    let exe = std::env::current_exe().map_err(|e| e.to_string())?;
    let _ = std::fs::remove_dir_all(dir);
    std::fs::create_dir_all(dir).map_err(|e| e.to_string())?;
    let out = std::process::Command::new(exe)
        .args(["check", prop, "quick"])
        .env("VERIF_SEED", seed.to_string())
        .env("VERIF_WORKERS", workers.to_string())
        .env("VERIF_SCALE", scale.to_string())
        .env("VERIF_DIR", dir)
        .output()
        .map_err(|e| e.to_string())?;
    if out.status.code() != Some(0) {
        return Err(format!(
            "{prop} child (workers={workers}) exited {:?}:\n{}\n{}",
            out.status.code(),
            String::from_utf8_lossy(&out.stdout),
            String::from_utf8_lossy(&out.stderr)
        ));
    }
    let ev = std::fs::read_to_string(dir.join("evidence").join(format!("{prop}.json")))
        .map_err(|e| e.to_string())?;
    let v: serde_json::Value = serde_json::from_str(&ev).map_err(|e| e.to_string())?;
    Ok((
        v["coverage"]["event_log_digest"]
            .as_str()
            .unwrap_or_default()
            .to_string(),
        v["coverage"]["evaluations"].as_u64().unwrap_or(0),
    ))
}

pub fn selfcheck(ctx: &Ctx) -> i32 {
    let scale = match ctx.tier {
        Tier::Quick => 4,
        Tier::Thorough => 60,
    };
    let base = ctx.verif_dir.join("sim").join("target").join("selfcheck");
    let mut bad = false;
    match crate::gen::selftest() {
        Ok(()) => println!("selfcheck generator: mini scale-info == real #[derive(TypeInfo)] on the mirrored definitions"),
        Err(e) => {
            eprintln!("HARNESS ERROR: {e}");
            bad = true;
        }
    }
    for prop in ["C06", "C10", "C11", "C16"] {
        let a = run_child(prop, ctx.seed, 1, scale, &base.join(format!("{prop}-w1")));
        let b = run_child(prop, ctx.seed, 16, scale, &base.join(format!("{prop}-w16")));
        let c = run_child(prop, ctx.seed, 5, scale, &base.join(format!("{prop}-w5")));
        let d = run_child(prop, ctx.seed ^ 0x5555, 16, scale, &base.join(format!("{prop}-other")));
        match (a, b, c, d) {
            (Ok(a), Ok(b), Ok(c), Ok(d)) => {
                let same = a == b && b == c;
                let sensitive = d.0 != a.0;
                println!(
                    "selfcheck {prop}: {} evaluations, log digest {} (1 worker) {} (16) {} (5) -> {}; other seed {} -> {}",
                    a.1,
                    a.0,
                    b.0,
                    c.0,
                    if same { "identical" } else { "DIFFERENT" },
                    d.0,
                    if sensitive { "differs as it should" } else { "NOT SENSITIVE TO THE SEED" }
                );
                if !same || !sensitive {
                    bad = true;
                }
            }
            (a, b, c, d) => {
                for r in [a, b, c, d] {
                    if let Err(e) = r {
                        eprintln!("HARNESS ERROR: selfcheck {prop}: {e}");
                    }
                }
                bad = true;
            }
        }
    }
    let _ = std::fs::remove_dir_all(&base);
    if bad {
        eprintln!("HARNESS ERROR: the simulator is not deterministic (or not seed-sensitive)");
        2
    } else {
        0
    }
}
