//! Check context, evidence files, violation reporting, known findings.

use std::path::PathBuf;
use std::time::Instant;

use serde_json::{json, Value};

#[derive(Clone, Copy, Debug, PartialEq, Eq)]
pub enum Tier {
    Quick,
    Thorough,
}

impl Tier {
    pub fn name(&self) -> &'static str {
        match self {
            Tier::Quick => "quick",
            Tier::Thorough => "thorough",
        }
    }
}

pub struct Ctx {
    pub tier: Tier,
    pub seed: u64,
    pub workers: usize,
    pub start: Instant,
    pub verif_dir: PathBuf,
    /// scale factor for run counts (VERIF_SCALE, percent) - used by selfcheck and tests
    pub scale_pct: u64,
}

pub const DEFAULT_SEED: u64 = 20261003;

impl Ctx {
    pub fn from_env(tier: Tier) -> Ctx {
        let seed = std::env::var("VERIF_SEED")
            .ok()
            .and_then(|s| s.trim().parse::<i128>().ok())
            .map(|v| v as u64)
            .unwrap_or(DEFAULT_SEED);
        let verif_dir = std::env::var("VERIF_DIR")
            .map(PathBuf::from)
            .unwrap_or_else(|_| PathBuf::from("/verif"));
        let scale_pct = std::env::var("VERIF_SCALE")
            .ok()
            .and_then(|s| s.parse().ok())
            .unwrap_or(100);
        Ctx {
            tier,
            seed,
            workers: crate::runner::workers_from_env(),
            start: Instant::now(),
            verif_dir,
            scale_pct,
        }
    }
    pub fn scaled(&self, n: u64) -> u64 {
        (n * self.scale_pct / 100).max(1)
    }
    pub fn wall_s(&self) -> f64 {
        self.start.elapsed().as_secs_f64()
    }
}

pub struct Violation {
    pub property: &'static str,
    /// violation class: what kind of disagreement (stable across minimisation)
    pub class: String,
    /// identifies the specific failing input / call site for known_findings.json
    pub key: String,
    pub summary: String,
    /// complete, already minimised replay document
    pub replay: Value,
    /// the same violation before minimisation; used when the minimised replay does not
    /// reproduce in a fresh process (minimisation runs inside the checking process and can be
    /// misled by state that other runs left behind there)
    pub unminimised_replay: Option<Value>,
}

#[derive(Debug, Clone)]
pub struct KnownFinding {
    pub property: String,
    pub key: String,
    pub status: String,
    pub what: String,
}

pub fn load_known_findings(ctx: &Ctx) -> Vec<KnownFinding> {
    let p = ctx.verif_dir.join("known_findings.json");
    let Ok(text) = std::fs::read_to_string(&p) else {
        return vec![];
    };
    let v: Value = match serde_json::from_str(&text) {
        Ok(v) => v,
        Err(e) => {
            eprintln!("HARNESS ERROR: {} does not parse: {e}", p.display());
            std::process::exit(2);
        }
    };
    let mut out = vec![];
    if let Some(a) = v.get("findings").and_then(|x| x.as_array()) {
        for f in a {
            let s = |k: &str| {
                f.get(k)
                    .and_then(|x| x.as_str())
                    .unwrap_or_default()
                    .to_string()
            };
            out.push(KnownFinding {
                property: s("property"),
                key: s("key"),
                status: s("status"),
                what: s("what"),
            });
        }
    }
    out
}

pub fn repo_provenance() -> Value {
    let run = |args: &[&str]| -> String {
        std::process::Command::new("git")
            .args(args)
            .output()
            .ok()
            .map(|o| String::from_utf8_lossy(&o.stdout).trim().to_string())
            .unwrap_or_default()
    };
    let head = run(&["-C", "/repo", "rev-parse", "HEAD"]);
    let dirty = run(&["-C", "/repo", "status", "--porcelain", "--untracked-files=no"]);
    json!({"repo_head": head, "repo_dirty_files": dirty.lines().count()})
}

/// Write evidence, report violations (after confirming that each replay file
/// reproduces in a fresh process), return the process exit code.
pub fn finish(
    ctx: &Ctx,
    property: &'static str,
    level: &str,
    mut coverage: Value,
    assumptions: Vec<String>,
    violations: Vec<Violation>,
) -> i32 {
    let known = load_known_findings(ctx);
    let mut exit = 0;
    let mut n_viol = 0;
    let mut n_known = 0;
    let mut not_reproduced = 0;
    let mut lines = vec![];
    let replay_dir = ctx.verif_dir.join("replays");
    for (n, v) in violations.iter().enumerate() {
        if let Some(k) = known
            .iter()
            .find(|k| k.status == "open" && k.property == v.property && k.key == v.key)
        {
            n_known += 1;
            lines.push(format!(
                "KNOWN-FINDING: property={} {} [{}]",
                v.property, k.what, v.key
            ));
            continue;
        }
        n_viol += 1;
        let _ = std::fs::create_dir_all(&replay_dir);
        let path = replay_dir.join(format!(
            "{}-{}-{}-{}.json",
            v.property,
            ctx.seed,
            n,
            crate::rng::Digest::of_str(&v.key) % 1_000_000
        ));
        let exe = std::env::current_exe().expect("current exe");
        let write_and_replay = |body: &Value, minimised: bool| -> Result<std::process::Output, String> {
            let mut doc = body.clone();
            doc["property"] = json!(v.property);
            doc["class"] = json!(v.class);
            doc["key"] = json!(v.key);
            doc["summary"] = json!(v.summary);
            doc["minimised"] = json!(minimised);
            doc["provenance"] = json!({"root_seed": ctx.seed, "tier": ctx.tier.name(), "repo": repo_provenance()});
            std::fs::write(&path, serde_json::to_string_pretty(&doc).unwrap())
                .map_err(|e| format!("cannot write replay {}: {e}", path.display()))?;
            // the replay must reproduce in a fresh process, or the alarm is not emitted as a verdict
            std::process::Command::new(&exe)
                .arg("replay")
                .arg(&path)
                .output()
                .map_err(|e| format!("cannot run replay: {e}"))
        };
        let mut out = write_and_replay(&v.replay, true);
        if let (Ok(o), Some(orig)) = (&out, &v.unminimised_replay) {
            if o.status.code() != Some(1) {
                out = write_and_replay(orig, false);
            }
        }
        let out = match out {
            Ok(o) => Ok(o),
            Err(e) => {
                eprintln!("HARNESS ERROR: {e}");
                return 2;
            }
        };
        let out: Result<std::process::Output, std::io::Error> = out;
        match out {
            Ok(o) if o.status.code() == Some(1) => {
                lines.push(format!("  {}", v.summary.replace('\n', "\n  ")));
                lines.push(format!(
                    "VIOLATION property={} replay={}",
                    v.property,
                    path.display()
                ));
                exit = 1;
            }
            Ok(o) => {
                // not reported as a verdict: only violations that replay exactly are. If some other
                // violation of this run does reproduce, that one is the verdict; if none does, the
                // run ends as a harness error below.
                not_reproduced += 1;
                n_viol -= 1;
                let _ = std::fs::remove_file(&path);
                eprintln!(
                    "WARNING: a violation did not reproduce when replayed in a fresh process (exit {:?}) and is not reported: {}\n{}",
                    o.status.code(),
                    v.summary,
                    String::from_utf8_lossy(&o.stdout),
                );
            }
            Err(e) => {
                eprintln!("HARNESS ERROR: cannot run replay: {e}");
                return 2;
            }
        }
    }
    if exit == 0 && not_reproduced > 0 {
        eprintln!(
            "HARNESS ERROR: {not_reproduced} violation(s) were observed but none reproduced from its replay file in a fresh process (state outside the replayed executions must be involved)"
        );
        return 2;
    }
    coverage["known_findings_matched"] = json!(n_known);
    coverage["violations_observed_but_not_reproducible_from_replay"] = json!(not_reproduced);
    let ev = json!({
        "property_id": property,
        "tier": ctx.tier.name(),
        "seed": ctx.seed,
        "level": level,
        "coverage": coverage,
        "assumptions": assumptions,
        "wall_s": (ctx.wall_s() * 1000.0).round() / 1000.0,
        "violations": n_viol,
    });
    let evdir = ctx.verif_dir.join("evidence");
    let _ = std::fs::create_dir_all(&evdir);
    let evpath = evdir.join(format!("{property}.json"));
    if let Err(e) = std::fs::write(&evpath, serde_json::to_string_pretty(&ev).unwrap() + "\n") {
        eprintln!("HARNESS ERROR: cannot write evidence {}: {e}", evpath.display());
        return 2;
    }
    for l in lines {
        println!("{l}");
    }
    println!(
        "{property} {} seed={} wall={:.1}s violations={} known_findings={} -> exit {}",
        ctx.tier.name(),
        ctx.seed,
        ctx.wall_s(),
        n_viol,
        n_known,
        exit
    );
    exit
}

pub const REAL_VS_STUB: &str = "real: scale-typegen as built from /repo's working tree, scale-info, syn/quote/proc-macro2, std HashMap/HashSet (hashbrown, SipHash-1-3, RandomState key increment per map); stub: the kernel entropy source only (libc getrandom interposed, 16 bytes per thread served from the run seed)";
