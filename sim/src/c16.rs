//! C16 and C11 - the settings builders as a state machine.
//!
//! Builder-history simulator: seeded histories of public builder calls (valid
//! and deliberately invalid), executed against the real `DerivesRegistry` /
//! `TypeSubstitutes` and against a reference model of ordered sets and maps,
//! compared operation by operation (C16). The read side - settings validation
//! and the similar-path query - is judged against expectations computed from
//! the *observed* builder state (C11). Every history runs under two hash-key
//! schedules.

use std::collections::{BTreeMap, BTreeSet};
use std::sync::Arc;

use scale_info::PortableRegistry;
use scale_typegen::typegen::validation::similar_type_paths_in_registry;
use serde_json::{json, Value};

use crate::c06::{World, ATTRS, DERIVES};
use crate::corpus;
use crate::entropy;
use crate::model::{nospace, parse_path, tokens_of, Builders, Op, SubErr, Switches};
use crate::observe;
use crate::refmodel;
use crate::report::{self, Ctx, Tier, Violation};
use crate::rng::{mix, tag, Digest, Rng};
use crate::runner;

type Sets = (BTreeSet<String>, BTreeSet<String>);

#[derive(Clone, Debug, Default, PartialEq, Eq)]
pub struct Model {
    pub global: Sets,
    pub specific: BTreeMap<String, Sets>,
    pub recursive: BTreeMap<String, Sets>,
    /// source identifiers -> target text (whitespace-free)
    pub rules: BTreeMap<Vec<String>, String>,
    /// normalised derive / attribute text -> text as registered (string literals keep their spaces)
    pub orig: BTreeMap<String, String>,
    /// source identifiers -> (source, target) as written in the winning call
    pub rule_text: BTreeMap<Vec<String>, (String, String)>,
}

fn key_of_path(p: &str) -> String {
    nospace(p)
}

fn idents_of(src: &str) -> Vec<String> {
    parse_path(src)
        .segments
        .iter()
        .map(|s| s.ident.to_string())
        .collect()
}

fn norm_tgt(t: &str) -> String {
    nospace(&tokens_of(&parse_path(t)))
}

fn norm_item(s: &str, attr: bool) -> String {
    if attr {
        nospace(&tokens_of(&crate::model::parse_attr(s)))
    } else {
        nospace(&tokens_of(&parse_path(s)))
    }
}

impl Model {
    /// Apply an accepted operation.
    pub fn apply(&mut self, op: &Op) {
        match op {
            Op::DerivesAll(v) | Op::SettingsDerivesAll(v) => {
                for s in v {
                    self.orig.insert(norm_item(s, false), s.clone());
                }
                self.global.0.extend(v.iter().map(|s| norm_item(s, false)))
            }
            Op::AttrsAll(v) => {
                for s in v {
                    self.orig.insert(norm_item(s, true), s.clone());
                }
                self.global.1.extend(v.iter().map(|s| norm_item(s, true)))
            }
            Op::DerivesFor {
                path,
                items,
                recursive,
            } => {
                let m = if *recursive {
                    &mut self.recursive
                } else {
                    &mut self.specific
                };
                for s in items {
                    self.orig.insert(norm_item(s, false), s.clone());
                }
                m.entry(key_of_path(path))
                    .or_default()
                    .0
                    .extend(items.iter().map(|s| norm_item(s, false)));
            }
            Op::AttrsFor {
                path,
                items,
                recursive,
            } => {
                let m = if *recursive {
                    &mut self.recursive
                } else {
                    &mut self.specific
                };
                for s in items {
                    self.orig.insert(norm_item(s, true), s.clone());
                }
                m.entry(key_of_path(path))
                    .or_default()
                    .1
                    .extend(items.iter().map(|s| norm_item(s, true)));
            }
            Op::SubInsert { src, tgt } | Op::SettingsSubstitute { src, tgt } => {
                self.rules.insert(idents_of(src), norm_tgt(tgt));
                self.rule_text.insert(idents_of(src), (src.clone(), tgt.clone()));
            }
            Op::SubInsertIfAbsent { src, tgt } => {
                self.rules.entry(idents_of(src)).or_insert_with(|| norm_tgt(tgt));
                self.rule_text
                    .entry(idents_of(src))
                    .or_insert_with(|| (src.clone(), tgt.clone()));
            }
            Op::SubExtend(v) => {
                for (src, tgt) in v {
                    self.rules.insert(idents_of(src), norm_tgt(tgt));
                    self.rule_text.insert(idents_of(src), (src.clone(), tgt.clone()));
                }
            }
        }
    }
    /// The same settings registered once, in sorted order, each element exactly once: what the
    /// history must be equivalent to if the builders are set/map accumulators.
    pub fn canonical_ops(&self) -> Vec<Op> {
        let o = |set: &BTreeSet<String>| -> Vec<String> {
            set.iter()
                .map(|k| self.orig.get(k).cloned().unwrap_or_else(|| k.clone()))
                .collect()
        };
        let mut ops = vec![];
        if !self.global.0.is_empty() {
            ops.push(Op::DerivesAll(o(&self.global.0)));
        }
        if !self.global.1.is_empty() {
            ops.push(Op::AttrsAll(o(&self.global.1)));
        }
        for (map, recursive) in [(&self.specific, false), (&self.recursive, true)] {
            for (p, (d, a)) in map {
                if !d.is_empty() {
                    ops.push(Op::DerivesFor {
                        path: p.clone(),
                        items: o(d),
                        recursive,
                    });
                }
                if !a.is_empty() {
                    ops.push(Op::AttrsFor {
                        path: p.clone(),
                        items: o(a),
                        recursive,
                    });
                }
            }
        }
        for (src, tgt) in self.rule_text.values() {
            ops.push(Op::SubInsert {
                src: src.clone(),
                tgt: tgt.clone(),
            });
        }
        ops
    }
    pub fn digest(&self) -> u64 {
        Digest::of_str(&format!("{self:?}"))
    }
}

#[derive(Clone, Debug, PartialEq, Eq)]
pub enum Expect {
    Accept,
    Reject(SubErr),
    /// `extend` whose element `at` is defective: the elements before it may have been applied
    ExtendReject { at: usize, err: SubErr },
}

#[derive(Clone, Debug)]
pub struct HOp {
    pub op: Op,
    pub expect: Expect,
    /// read back everything after this operation
    pub read_after: bool,
    /// do the end-to-end read (flatten + generate + parse) after this operation
    pub e2e_after: bool,
}

impl HOp {
    fn to_json(&self) -> Value {
        let e = match &self.expect {
            Expect::Accept => json!("accept"),
            Expect::Reject(k) => json!({"reject": k.name()}),
            Expect::ExtendReject { at, err } => json!({"extend_reject_at": at, "kind": err.name()}),
        };
        json!({"call": self.op.to_json(), "expect": e, "read_after": self.read_after, "e2e_after": self.e2e_after})
    }
    fn from_json(v: &Value) -> Result<HOp, String> {
        let op = Op::from_json(&v["call"])?;
        let kind = |s: &str| -> Result<SubErr, String> {
            Ok(match s {
                "ExpectedAbsolutePath" => SubErr::ExpectedAbsolutePath,
                "EmptySubstitutePath" => SubErr::EmptySubstitutePath,
                "ExpectedAngleBracketGenerics" => SubErr::ExpectedAngleBracketGenerics,
                "InvalidFromType" => SubErr::InvalidFromType,
                "InvalidToType" => SubErr::InvalidToType,
                "NoMatchingFromType" => SubErr::NoMatchingFromType,
                o => return Err(format!("unknown error kind {o}")),
            })
        };
        let e = &v["expect"];
        let expect = if e.as_str() == Some("accept") {
            Expect::Accept
        } else if let Some(k) = e.get("reject").and_then(|x| x.as_str()) {
            Expect::Reject(kind(k)?)
        } else if let Some(at) = e.get("extend_reject_at").and_then(|x| x.as_u64()) {
            Expect::ExtendReject {
                at: at as usize,
                err: kind(e["kind"].as_str().unwrap_or_default())?,
            }
        } else {
            return Err("bad expect".into());
        };
        Ok(HOp {
            op,
            expect,
            read_after: v["read_after"].as_bool().unwrap_or(true),
            e2e_after: v["e2e_after"].as_bool().unwrap_or(false),
        })
    }
}

// ---------------------------------------------------------------------------
// universe + history generation
// ---------------------------------------------------------------------------

pub struct Universe {
    pub reg_name: String,
    pub reg: Arc<PortableRegistry>,
    /// a registry that knows none of the universe's paths
    pub foreign: Arc<PortableRegistry>,
    pub paths: Vec<String>,
    /// those of `paths` whose registry type declares type parameters
    pub generic_paths: Vec<String>,
    pub derives: Vec<String>,
    pub attrs: Vec<String>,
    pub queries: Vec<String>,
}

const UNKNOWN: &[&str] = &["unknown::Path1", "x::Y", "absent::from::registry::Z", "Lonely", "sim::corpus::Nope"];

/// Paths that are NOT the path of any registry type but look like one.
pub fn near_misses(reg: &PortableRegistry, rng: &mut Rng) -> Vec<String> {
    let all: BTreeSet<Vec<String>> = reg.types.iter().map(|t| t.ty.path.segments.clone()).collect();
    let named: Vec<Vec<String>> = all.iter().filter(|p| p.len() >= 2).cloned().collect();
    let mut out: Vec<Vec<String>> = vec![];
    for _ in 0..4 {
        if named.is_empty() {
            break;
        }
        let p = rng.pick(&named).clone();
        let n = p.len();
        match rng.below(8) {
            6 | 7 => {
                // same characters, same number of segments, one boundary moved by a character
                // (`x::ab::c::T` vs `x::a::bc::T`): collides under any key that concatenates
                let i = rng.usize_below(n - 1);
                let mut q = p.clone();
                if rng.below(2) == 0 {
                    if let Some(c) = q[i].pop() {
                        q[i + 1].insert(0, c);
                    }
                } else if !q[i + 1].is_empty() {
                    let c = q[i + 1].remove(0);
                    q[i].push(c);
                }
                out.push(q)
            }
            0 => out.push(p[1 + rng.usize_below(n - 1)..].to_vec()), // proper suffix
            1 => {
                let mut q = vec!["outer".to_string()];
                q.extend(p);
                out.push(q) // extension to the left
            }
            2 => out.push(p[..1 + rng.usize_below(n - 1)].to_vec()), // proper prefix
            3 => {
                let mut q = p.clone();
                q[n - 2] = format!("{}_x", q[n - 2]);
                out.push(q) // same length, sibling module
            }
            4 => {
                let mut q = p.clone();
                q[n - 1] = q[n - 1].to_lowercase();
                out.push(q)
            }
            _ => {
                let mut q = p.clone();
                q.push("Inner".into());
                out.push(q) // extension to the right
            }
        }
    }
    out.push(vec!["core".into(), "option".into(), "Option".into()]);
    out.push(vec!["std".into(), "result".into(), "Result".into()]);
    out.into_iter()
        .filter(|p| !all.contains(p) && !p.is_empty())
        .filter(|p| p.iter().all(|s| syn::parse_str::<syn::Ident>(s).is_ok()))
        .map(|p| p.join("::"))
        .collect::<BTreeSet<_>>()
        .into_iter()
        .collect()
}

pub fn gen_universe(w: &World, rng: &mut Rng, prop: Prop) -> Universe {
    // probe registries: families (single id per chosen path)
    let fam: Vec<&corpus::Entry> = w
        .families
        .iter()
        .filter(|e| !e.name.starts_with("fam:mix_all"))
        .collect();
    let e: corpus::Entry = {
        let f = *rng.pick(&fam);
        let mut chosen = corpus::Entry {
            name: f.name.clone(),
            reg: f.reg.clone(),
        };
        if prop == Prop::C11 && rng.chance(1, 10) {
            // the read side needs no probe generation, so large real registries can serve:
            // a slice of the polkadot metadata, now and then all 918 types of it
            if rng.chance(1, 6) {
                chosen = corpus::Entry {
                    name: "polkadot:full".into(),
                    reg: w.polkadot.clone(),
                };
            } else {
                let k = 1 + rng.usize_below(4);
                let roots = rng.subset(&w.polkadot_named, k);
                chosen = corpus::Entry {
                    name: format!("polkadot:slice{roots:?}"),
                    reg: corpus::slice(&w.polkadot, &roots),
                };
            }
        } else if rng.chance(1, 4) {
            // a generated registry, de-duplicated; used as probe only if it generates cleanly
            let s = rng.next_u64();
            let r = crate::gen::random_registry(&mut Rng::new(s));
            let usable = entropy::execution(3, || {
                let r2 = observe::dedup(&r).ok()?;
                let settings = Switches::standard().settings(Builders::new());
                observe::gen_tokens(&r2, &settings).ok().map(|_| r2)
            })
            .0
            .ok()
            .flatten();
            if let Some(r2) = usable {
                chosen = corpus::Entry {
                    name: format!("gen:{s:016x}+dedup"),
                    reg: r2,
                };
            }
        }
        chosen
    };
    let mut e = e;
    let mut extra_queries: Vec<String> = vec![];
    if prop == Prop::C11 && rng.chance(1, 6) {
        // a hand-built registry may give a path to an entry that is not a struct or enum
        // (a named sequence, array, tuple, primitive ...): still "the path of some registry type"
        let anon: Vec<usize> = e
            .reg
            .types
            .iter()
            .enumerate()
            .filter(|(_, t)| t.ty.path.segments.is_empty())
            .map(|(i, _)| i)
            .collect();
        let named = refmodel::named_paths(&e.reg);
        if !anon.is_empty() && !named.is_empty() {
            let i = *rng.pick(&anon);
            let like = rng.pick(&named).clone();
            let mut segs: Vec<String> = like.split("::").map(|s| s.to_string()).collect();
            if rng.chance(1, 2) {
                // same identifier as an existing type, other module
                let n = segs.len();
                segs[n - 2] = format!("{}_raw", segs[n - 2]);
            } else {
                *segs.last_mut().unwrap() = "Bytes".to_string();
            }
            extra_queries.push(segs.last().unwrap().clone());
            extra_queries.push(segs.join("::"));
            e.reg.types[i].ty.path.segments = segs;
            e.name = format!("{}+named-entry{i}", e.name);
        }
    }
    let by_path = refmodel::ids_by_path(&e.reg);
    let single: Vec<String> = refmodel::named_paths(&e.reg)
        .into_iter()
        .filter(|p| by_path.get(p).map(|v| v.len() == 1).unwrap_or(false))
        .filter(|p| {
            let id = by_path[p][0];
            refmodel::is_generated_kind(&e.reg.types[id as usize].ty)
        })
        .collect();
    // one-segment prelude paths that occur exactly once are paths of registry types as well
    let single_prelude: Vec<String> = by_path
        .iter()
        .filter(|(p, ids)| !p.contains("::") && ids.len() == 1)
        .map(|(p, _)| p.clone())
        .collect();
    let n_paths = 4 + rng.usize_below(7);
    // usually 1-3 unknown paths; one universe in six is mostly unknown paths
    let n_unknown = if rng.chance(1, 6) {
        (n_paths - 1).min(4 + rng.usize_below(3))
    } else {
        1 + rng.usize_below(3.min(n_paths - 1))
    };
    let mut paths = rng.subset(&single, (n_paths - n_unknown).min(single.len()));
    if !single_prelude.is_empty() && rng.chance(1, 3) {
        paths.push(rng.pick(&single_prelude).clone());
    }
    {
        let generic_single: Vec<&String> = single
            .iter()
            .filter(|p| !e.reg.types[by_path[*p][0] as usize].ty.type_params.is_empty())
            .collect();
        if !generic_single.is_empty() && rng.chance(1, 2) {
            let g = (*rng.pick(&generic_single)).clone();
            if !paths.contains(&g) {
                paths.push(g);
            }
        }
    }
    if prop == Prop::C11 {
        // the read side has no notion of a "root id": paths carried by several registry entries
        // (generic instantiations, prelude types) are known paths like any other
        let multi: Vec<String> = by_path
            .iter()
            .filter(|(_, ids)| ids.len() > 1)
            .map(|(p, _)| p.clone())
            .collect();
        let n = rng.usize_below(3).min(multi.len());
        paths.extend(rng.subset(&multi, n));
    }
    // unknown paths: unrelated ones and near misses of registry paths (suffix, extension,
    // prefix, sibling module, different case, a prelude type spelled with its std path)
    let mut unknown_pool: Vec<String> = UNKNOWN.iter().map(|s| s.to_string()).collect();
    unknown_pool.extend(near_misses(&e.reg, rng));
    paths.extend(rng.subset(&unknown_pool, n_unknown));
    if rng.chance(1, 12) {
        // a wide universe: dozens of paths (most of them unknown to the registry), so that the
        // builders and the validation meet more entries than any small-size fast path covers
        let n_wide = 20 + rng.usize_below(24);
        for i in 0..n_wide {
            let p = format!("wide::m{}::T{i}", i % 5);
            if !by_path.contains_key(&p) {
                paths.push(p);
            }
        }
    }
    rng.shuffle(&mut paths);
    let nd = 3 + rng.usize_below(6);
    let na = 2 + rng.usize_below(4);
    let derives = rng.subset(DERIVES, nd).into_iter().map(|s| s.to_string()).collect();
    let attrs = rng.subset(ATTRS, na).into_iter().map(|s| s.to_string()).collect();
    // queries for the similar-path read
    let mut queries: Vec<String> = vec!["".into(), "Nope".into(), "::a::b::Nope".into()];
    let all_named = refmodel::named_paths(&e.reg);
    for _ in 0..3 {
        if all_named.is_empty() {
            break;
        }
        let p = rng.pick(&all_named);
        let last = p.rsplit("::").next().unwrap().to_string();
        match rng.below(4) {
            0 => queries.push(last),
            1 => queries.push(format!("::other::prefix::{last}")),
            2 => queries.push(format!("{p}<A, B>")),
            _ => queries.push(p.clone()),
        }
    }
    for p in &all_named {
        let last = p.rsplit("::").next().unwrap();
        if let Some((_, tail)) = last.rsplit_once('_') {
            if syn::parse_str::<syn::Ident>(tail).is_ok() && queries.len() < 14 {
                queries.push(tail.to_string());
            }
        }
    }
    queries.extend(extra_queries);
    queries.push("Option".into());
    queries.push("x::Option<T>".into());
    // the foreign registry: the polkadot-free smallest family whose paths are disjoint
    let foreign = w
        .families
        .iter()
        .find(|f| {
            f.name != e.name && {
                let fp: BTreeSet<String> = refmodel::named_paths(&f.reg).into_iter().collect();
                paths.iter().all(|p| !fp.contains(p))
            }
        })
        .map(|f| Arc::new(f.reg.clone()))
        .unwrap_or_else(|| Arc::new(PortableRegistry { types: vec![] }));
    let generic_paths: Vec<String> = paths
        .iter()
        .filter(|p| {
            by_path
                .get(*p)
                .map(|ids| !e.reg.types[ids[0] as usize].ty.type_params.is_empty())
                .unwrap_or(false)
        })
        .cloned()
        .collect();
    Universe {
        reg_name: e.name.clone(),
        reg: Arc::new(e.reg.clone()),
        foreign,
        generic_paths,
        paths,
        derives,
        attrs,
        queries,
    }
}

struct Swarm {
    w_global: u64,
    w_perpath: u64,
    w_sub: u64,
    defect_pct: u64,
    read_every: bool,
    empty_batches: bool,
}

fn batch(rng: &mut Rng, pool: &[String], allow_empty: bool) -> Vec<String> {
    let n = if allow_empty && rng.chance(1, 8) {
        0
    } else {
        1 + rng.usize_below(3)
    };
    (0..n).map(|_| rng.pick(pool).clone()).collect()
}

fn defective_sub(rng: &mut Rng, src: &str, n: usize) -> (String, String, SubErr) {
    let good_tgt = format!("::t::R{n}");
    // rarer shapes of the same documented defects
    if rng.chance(1, 3) {
        return match rng.below(10) {
            0 => (format!("{src}<::A>"), good_tgt, SubErr::InvalidFromType),
            1 => (format!("{src}<A, ::B>"), good_tgt, SubErr::InvalidFromType),
            2 => (format!("{src}<&'static A>"), good_tgt, SubErr::InvalidFromType),
            3 => (format!("{src}<<A as X>::Y>"), good_tgt, SubErr::InvalidFromType),
            4 => (format!("{src}<(A)>"), good_tgt, SubErr::InvalidFromType),
            5 => (format!("{src}<A, B, 3>"), good_tgt, SubErr::InvalidFromType),
            6 => (src.into(), format!("::t::R{n}<&'static A>"), SubErr::InvalidToType),
            7 => (src.into(), format!("::t::R{n}<A, fn()>"), SubErr::InvalidToType),
            8 if rng.chance(1, 2) => (src.into(), format!("::t::R{n}<(A)>"), SubErr::InvalidToType),
            8 => (src.into(), format!("::t::R{n}<_>"), SubErr::InvalidToType),
            _ => (src.into(), format!("crate::t::R{n}(A) -> B"), SubErr::ExpectedAngleBracketGenerics),
        };
    }
    match rng.below(14) {
        0 => (src.into(), format!("t::R{n}"), SubErr::ExpectedAbsolutePath),
        1 => (src.into(), format!("self::R{n}"), SubErr::ExpectedAbsolutePath),
        2 => (src.into(), format!("super::t::R{n}"), SubErr::ExpectedAbsolutePath),
        3 => (
            format!("{src}(A, B)"),
            good_tgt,
            SubErr::ExpectedAngleBracketGenerics,
        ),
        4 => (
            src.into(),
            format!("::t::R{n}(A)"),
            SubErr::ExpectedAngleBracketGenerics,
        ),
        5 => (format!("{src}<::a::B>"), good_tgt, SubErr::InvalidFromType),
        6 => (format!("{src}<A<B>>"), good_tgt, SubErr::InvalidFromType),
        7 => (format!("{src}<'a>"), good_tgt, SubErr::InvalidFromType),
        8 => (format!("{src}<A, [B; 2]>"), good_tgt, SubErr::InvalidFromType),
        9 => (src.into(), format!("::t::R{n}<'a>"), SubErr::InvalidToType),
        10 => (src.into(), format!("::t::R{n}<(A, B)>"), SubErr::InvalidToType),
        11 => (src.into(), format!("::t::R{n}<A, [B; 2]>"), SubErr::InvalidToType),
        12 => ("".into(), good_tgt, SubErr::EmptySubstitutePath),
        _ => (src.into(), "::".into(), SubErr::EmptySubstitutePath),
    }
}

fn good_sub(rng: &mut Rng, src: &str, n: usize, generic: &[String], allow_shared: bool) -> (String, String) {
    // now and then a target text that other calls of the run use as well, under differently
    // declared source generics: the rule in force must carry the parameter mapping of the
    // LAST call, which only shows in generated code (the history-vs-canonical comparison)
    if allow_shared && rng.chance(1, 5) {
        // preferably for a type that has type parameters, where the mapping matters
        let src = if !generic.is_empty() && rng.chance(3, 4) {
            rng.pick(generic).as_str()
        } else {
            src
        };
        let tgt = ["::t::Same<A, B>", "::t::Same", "::t::Same<B>", "::t::Same<A, B>"][rng.usize_below(4)];
        let s = match rng.below(5) {
            0 => format!("{src}<A, B>"),
            1 => format!("{src}<B, A>"),
            2 => format!("{src}<A>"),
            3 => format!("{src}<B>"),
            _ => src.to_string(),
        };
        return (s, tgt.to_string());
    }
    match rng.below(6) {
        0 => (format!("{src}<A, B>"), format!("::t::R{n}<B, A>")),
        1 => (format!("{src}<A>"), format!("::t::R{n}<::core::option::Option<A>>")),
        2 => (src.into(), format!("crate::t::R{n}")),
        3 => (src.into(), format!("::t::R{n}<::core::primitive::u8>")),
        _ => (src.into(), format!("::t::R{n}")),
    }
}

pub fn gen_history(u: &Universe, seed: u64) -> Vec<HOp> {
    let mut rng = Rng::new(seed);
    let sw = Swarm {
        w_global: rng.below(4),
        w_perpath: 1 + rng.below(5),
        w_sub: 1 + rng.below(5),
        defect_pct: [0, 10, 15, 15, 30][rng.usize_below(5)],
        read_every: rng.chance(1, 4),
        empty_batches: rng.chance(1, 2),
    };
    // 1..40, median about 8
    let len = {
        let a = 1 + rng.usize_below(8);
        let b = if rng.chance(1, 2) { rng.usize_below(10) } else { 0 };
        let c = if rng.chance(1, 8) { rng.usize_below(23) } else { 0 };
        (a + b + c).min(40)
    };
    // wide universes get long histories that mostly register per path
    let wide = u.paths.len() > 20;
    let len = if wide { 50 + rng.usize_below(70) } else { len };
    let sw = if wide {
        Swarm {
            w_perpath: 8 + sw.w_perpath,
            ..sw
        }
    } else {
        sw
    };
    let total = sw.w_global + sw.w_perpath + sw.w_sub;
    let mut n_sub = 0usize;
    let mut out = vec![];
    for i in 0..len {
        let pick = rng.below(total);
        let (op, expect) = if pick < sw.w_global {
            match rng.below(3) {
                0 => (Op::DerivesAll(batch(&mut rng, &u.derives, sw.empty_batches)), Expect::Accept),
                1 => (
                    Op::SettingsDerivesAll(batch(&mut rng, &u.derives, sw.empty_batches)),
                    Expect::Accept,
                ),
                _ => (Op::AttrsAll(batch(&mut rng, &u.attrs, sw.empty_batches)), Expect::Accept),
            }
        } else if pick < sw.w_global + sw.w_perpath {
            let mut path = rng.pick(&u.paths).clone();
            // the same identifiers spelled differently are different entries for the builders
            // (and never match a registry type), but the same path for validation
            match rng.below(24) {
                0 => path = format!("::{path}"),
                1 => path = format!("{path}<X>"),
                _ => {}
            }
            let recursive = rng.chance(1, 2);
            if rng.chance(3, 5) {
                (
                    Op::DerivesFor {
                        path,
                        items: batch(&mut rng, &u.derives, sw.empty_batches),
                        recursive,
                    },
                    Expect::Accept,
                )
            } else {
                (
                    Op::AttrsFor {
                        path,
                        items: batch(&mut rng, &u.attrs, sw.empty_batches),
                        recursive,
                    },
                    Expect::Accept,
                )
            }
        } else {
            let defect = rng.below(100) < sw.defect_pct;
            let src = rng.pick(&u.paths).clone();
            match rng.below(4) {
                0 | 1 => {
                    n_sub += 1;
                    if defect {
                        let (s, t, k) = defective_sub(&mut rng, &src, n_sub);
                        let op = if rng.chance(1, 2) {
                            Op::SubInsert { src: s, tgt: t }
                        } else {
                            Op::SubInsertIfAbsent { src: s, tgt: t }
                        };
                        (op, Expect::Reject(k))
                    } else {
                        let (s, t) = good_sub(&mut rng, &src, n_sub, &u.generic_paths, true);
                        let op = match rng.below(5) {
                            0 | 1 => Op::SubInsert { src: s, tgt: t },
                            2 if t.starts_with("::") => Op::SettingsSubstitute { src: s, tgt: t },
                            _ => Op::SubInsertIfAbsent { src: s, tgt: t },
                        };
                        (op, Expect::Accept)
                    }
                }
                _ => {
                    let k = 1 + rng.usize_below(4);
                    let bad_at = if defect { Some(rng.usize_below(k)) } else { None };
                    let mut elems = vec![];
                    let mut expect = Expect::Accept;
                    for j in 0..k {
                        n_sub += 1;
                        let src = rng.pick(&u.paths).clone();
                        if Some(j) == bad_at {
                            let (s, t, kind) = defective_sub(&mut rng, &src, n_sub);
                            expect = if kind == SubErr::ExpectedAbsolutePath {
                                // rejected by the caller-side conversion: extend() is never reached
                                Expect::Reject(kind)
                            } else {
                                Expect::ExtendReject { at: j, err: kind }
                            };
                            elems.push((s, t));
                        } else {
                            elems.push(good_sub(&mut rng, &src, n_sub, &u.generic_paths, bad_at.is_none()));
                        }
                    }
                    (Op::SubExtend(elems), expect)
                }
            }
        };
        let last = i + 1 == len;
        out.push(HOp {
            op,
            expect,
            read_after: sw.read_every || last || rng.chance(1, 3),
            e2e_after: last || rng.chance(1, 12),
        });
    }
    out
}

// ---------------------------------------------------------------------------
// reads
// ---------------------------------------------------------------------------

#[derive(Clone, Debug, PartialEq, Eq, Default)]
pub struct Readback {
    pub global: Sets,
    /// (path, derives, attrs), sorted; entries with both sets empty dropped
    pub per_path: Vec<(String, bool, BTreeSet<String>, BTreeSet<String>)>,
    pub rules: BTreeMap<Vec<String>, String>,
    pub contains: BTreeMap<String, bool>,
}

/// Works for any collection the getters may return (`&HashSet<T>` today).
fn set_of<'a, T: quote::ToTokens + 'a>(s: impl IntoIterator<Item = &'a T>) -> BTreeSet<String> {
    s.into_iter().map(|x| nospace(&tokens_of(x))).collect()
}

/// Read everything the builders expose. `derives_on_specific_types()` chains the
/// specific and the recursive map without saying which is which, so the model is
/// compared as a multiset of (path, derives, attrs).
pub fn read_back(b: &Builders, u: &Universe, raw: &mut Vec<(String, String)>) -> Readback {
    let dd = b.derives.default_derives();
    let mut per_path: Vec<(String, bool, BTreeSet<String>, BTreeSet<String>)> = vec![];
    let mut raw_paths = vec![];
    for (p, d) in b.derives.derives_on_specific_types() {
        let k = nospace(&tokens_of(p));
        raw_paths.push(k.clone());
        let ds = set_of(d.derives());
        let at = set_of(d.attributes());
        if ds.is_empty() && at.is_empty() {
            continue;
        }
        // `derives_on_specific_types()` may list a path once per map or once in total: only
        // the union per path is compared (which map an entry lives in shows in the
        // end-to-end read, through what the recursive flag does)
        if let Some(e) = per_path.iter_mut().find(|e| e.0 == k) {
            e.2.extend(ds);
            e.3.extend(at);
        } else {
            per_path.push((k, false, ds, at));
        }
    }
    per_path.sort();
    raw.push((
        "DerivesRegistry::derives_on_specific_types".into(),
        raw_paths.join(","),
    ));
    let mut rules = BTreeMap::new();
    let mut raw_rules = vec![];
    for (k, s) in b.subs.iter() {
        raw_rules.push(k.join("::"));
        rules.insert(k.clone(), nospace(&tokens_of(s.path())));
    }
    raw.push(("TypeSubstitutes::iter".into(), raw_rules.join(",")));
    raw.push((
        "Derives::derives".into(),
        dd.derives()
            .into_iter()
            .map(|x| nospace(&tokens_of(x)))
            .collect::<Vec<_>>()
            .join(","),
    ));
    let mut contains = BTreeMap::new();
    for p in &u.paths {
        contains.insert(p.clone(), b.subs.contains(&idents_of(p)));
    }
    contains.insert("<empty>".into(), b.subs.contains(&vec![]));
    Readback {
        global: (set_of(dd.derives()), set_of(dd.attributes())),
        per_path,
        rules,
        contains,
    }
}

pub fn model_readback(m: &Model, u: &Universe) -> Readback {
    let mut per_path: Vec<(String, bool, BTreeSet<String>, BTreeSet<String>)> = vec![];
    for map in [&m.specific, &m.recursive] {
        for (p, (d, a)) in map {
            if d.is_empty() && a.is_empty() {
                continue;
            }
            if let Some(e) = per_path.iter_mut().find(|e| e.0 == *p) {
                e.2.extend(d.iter().cloned());
                e.3.extend(a.iter().cloned());
            } else {
                per_path.push((p.clone(), false, d.clone(), a.clone()));
            }
        }
    }
    per_path.sort();
    let mut contains = BTreeMap::new();
    for p in &u.paths {
        contains.insert(p.clone(), m.rules.contains_key(&idents_of(p)));
    }
    contains.insert("<empty>".into(), false);
    Readback {
        global: m.global.clone(),
        per_path,
        rules: m.rules.clone(),
        contains,
    }
}

fn describe_diff(real: &Readback, model: &Readback) -> String {
    if real.global != model.global {
        return format!("global derives/attributes: real {:?} model {:?}", real.global, model.global);
    }
    if real.per_path != model.per_path {
        return format!(
            "derives_on_specific_types (union per path): real {:?} model {:?}",
            real.per_path, model.per_path
        );
    }
    if real.rules != model.rules {
        return format!("TypeSubstitutes::iter: real {:?} model {:?}", real.rules, model.rules);
    }
    format!("TypeSubstitutes::contains: real {:?} model {:?}", real.contains, model.contains)
}

/// End-to-end read: what does each generated item of the probe registry carry?
pub fn e2e_read(b: &Builders, u: &Universe) -> Result<BTreeMap<String, Sets>, String> {
    let sw = Switches {
        compact_as: None,
        ..Switches::standard()
    };
    let settings = sw.settings(Builders {
        derives: b.derives.clone(),
        subs: b.subs.clone(),
    });
    let tokens = observe::gen_tokens(&u.reg, &settings)?;
    let items = observe::item_attrs(&tokens)?;
    let mut m = BTreeMap::new();
    for it in items {
        m.insert(
            it.path,
            (
                it.derives.iter().map(|s| nospace(s)).collect(),
                it.attrs.iter().map(|s| nospace(s)).collect(),
            ),
        );
    }
    Ok(m)
}

/// What the property says each generated item carries, as (lower, upper) bounds.
pub fn e2e_expect(
    state: &Readback,
    spec_rec: &Model,
    u: &Universe,
) -> BTreeMap<String, (Sets, Sets)> {
    let reg = &*u.reg;
    let by_path = refmodel::ids_by_path(reg);
    // reach sets per recursive root that the registry knows
    let mut roots: Vec<(&Sets, refmodel::Reach)> = vec![];
    for (p, sets) in &spec_rec.recursive {
        if let Some(ids) = by_path.get(p) {
            // the probe universe only offers single-id paths as roots
            roots.push((sets, refmodel::reach(reg, ids[0])));
        }
    }
    let mut out = BTreeMap::new();
    let mut seen = BTreeSet::new();
    for t in reg.types.iter() {
        if !refmodel::is_generated_kind(&t.ty) {
            continue;
        }
        let p = refmodel::path_text(&t.ty);
        if !seen.insert(p.clone()) || state.rules.contains_key(&t.ty.path.segments) {
            continue;
        }
        let ids = &by_path[&p];
        let mut lower: Sets = state.global.clone();
        if let Some((d, a)) = spec_rec.specific.get(&p) {
            lower.0.extend(d.iter().cloned());
            lower.1.extend(a.iter().cloned());
        }
        let mut upper = lower.clone();
        for (sets, reach) in &roots {
            if ids.iter().any(|id| reach.structural.contains(id)) {
                lower.0.extend(sets.0.iter().cloned());
                lower.1.extend(sets.1.iter().cloned());
            }
            if ids.iter().any(|id| reach.with_params.contains(id)) {
                upper.0.extend(sets.0.iter().cloned());
                upper.1.extend(sets.1.iter().cloned());
            }
        }
        upper.0.extend(lower.0.iter().cloned());
        upper.1.extend(lower.1.iter().cloned());
        out.insert(p, (lower, upper));
    }
    out
}

fn judge_e2e(
    got: &Result<BTreeMap<String, Sets>, String>,
    want: &BTreeMap<String, (Sets, Sets)>,
    root: &str,
) -> Option<String> {
    let got = match got {
        Ok(g) => g,
        Err(e) => return Some(format!("probe generation failed: {e}")),
    };
    let _ = root;
    let got_paths: BTreeSet<&String> = got.keys().collect();
    let want_paths: BTreeSet<&String> = want.keys().collect();
    if got_paths != want_paths {
        return Some(format!(
            "items defined in the probe output {:?} != generated types that are not substituted {:?}",
            got_paths.difference(&want_paths).collect::<Vec<_>>(),
            want_paths.difference(&got_paths).collect::<Vec<_>>()
        ));
    }
    for (p, (d, a)) in got {
        let (lo, hi) = &want[p];
        if !(lo.0.is_subset(d) && d.is_subset(&hi.0)) {
            return Some(format!(
                "derives on {p}: got {d:?}, property requires at least {:?} and at most {:?}",
                lo.0, hi.0
            ));
        }
        if !(lo.1.is_subset(a) && a.is_subset(&hi.1)) {
            return Some(format!(
                "attributes on {p}: got {a:?}, property requires at least {:?} and at most {:?}",
                lo.1, hi.1
            ));
        }
    }
    None
}

/// Second end-to-end read, through the API that callers generating single types use
/// (`DerivesRegistry::flatten_recursive_derives` + `FlatDerivesRegistry::resolve*`): what derives
/// does the flattened registry resolve for each probe type, and for a path nobody registered?
pub fn flat_read(b: &Builders, u: &Universe) -> Result<(BTreeMap<String, Sets>, Sets), String> {
    let flat = b
        .derives
        .clone()
        .flatten_recursive_derives(&u.reg)
        .map_err(|e| format!("flatten_recursive_derives: {e}"))?;
    let mut m = BTreeMap::new();
    for t in u.reg.types.iter() {
        if !refmodel::is_generated_kind(&t.ty) {
            continue;
        }
        let d = flat
            .resolve_derives_for_type(&t.ty)
            .map_err(|e| format!("resolve_derives_for_type({}): {e}", t.id))?;
        let sets: Sets = (set_of(d.derives()), set_of(d.attributes()));
        let p = refmodel::path_text(&t.ty);
        if let Some(prev) = m.get(&p) {
            if *prev != sets {
                return Err(format!("two entries with path {p} resolve to different derives: {prev:?} vs {sets:?}"));
            }
        }
        m.insert(p, sets);
    }
    let nobody = flat.resolve(&crate::model::parse_type_path("never::registered::by::anybody::Anywhere"));
    Ok((m, (set_of(nobody.derives()), set_of(nobody.attributes()))))
}

fn judge_flat(
    got: &Result<(BTreeMap<String, Sets>, Sets), String>,
    want: &BTreeMap<String, (Sets, Sets)>,
    global: &Sets,
) -> Option<String> {
    let (got, nobody) = match got {
        Ok(g) => g,
        Err(e) => return Some(format!("flattening failed on the probe registry: {e}")),
    };
    if nobody != global {
        return Some(format!(
            "FlatDerivesRegistry::resolve for a path nothing was registered for gives {nobody:?}, the global registrations are {global:?}"
        ));
    }
    for (p, (lo, hi)) in want {
        let Some((d, a)) = got.get(p) else {
            return Some(format!("no flat resolution for probe type {p}"));
        };
        if !(lo.0.is_subset(d) && d.is_subset(&hi.0)) {
            return Some(format!(
                "flat derives for {p}: got {d:?}, property requires at least {:?} and at most {:?}",
                lo.0, hi.0
            ));
        }
        if !(lo.1.is_subset(a) && a.is_subset(&hi.1)) {
            return Some(format!(
                "flat attributes for {p}: got {a:?}, property requires at least {:?} and at most {:?}",
                lo.1, hi.1
            ));
        }
    }
    None
}

/// The `Derives` value itself is a public accumulator (`new`, `from_iter`, `insert_derive`,
/// `insert_attribute`, `extend`, `extend_from`, `clone`): a seeded call sequence over a small pool of
/// values against two ordered sets; read back through `derives()`, `attributes()` and the rendering.
/// Returns (number of calls, violation).
pub fn derives_value_history(u: &Universe, seed: u64) -> (u64, Option<String>) {
    use scale_typegen::typegen::settings::derives::Derives;
    let mut rng = Rng::new(mix(seed, tag("derives-value"), 0));
    let n_vals = 2 + rng.usize_below(2);
    let mut vals: Vec<Derives> = (0..n_vals).map(|_| Derives::new()).collect();
    let mut model: Vec<Sets> = vec![Default::default(); n_vals];
    let key_d = |s: &String| nospace(&tokens_of(&parse_path(s)));
    let key_a = |s: &String| nospace(&tokens_of(&crate::model::parse_attr(s)));
    let n_ops = 1 + rng.usize_below(10);
    let mut log = vec![];
    for _ in 0..n_ops {
        let i = rng.usize_below(n_vals);
        match rng.usize_below(7) {
            0 | 1 if !u.derives.is_empty() => {
                let d = rng.pick(&u.derives).clone();
                vals[i].insert_derive(parse_path(&d));
                model[i].0.insert(key_d(&d));
                log.push(format!("v{i}.insert_derive({d})"));
            }
            2 if !u.attrs.is_empty() => {
                let a = rng.pick(&u.attrs).clone();
                vals[i].insert_attribute(crate::model::parse_attr(&a));
                model[i].1.insert(key_a(&a));
                log.push(format!("v{i}.insert_attribute({a})"));
            }
            3 => {
                let ds = batch(&mut rng, &u.derives, true);
                vals[i].extend(ds.iter().map(|s| parse_path(s)));
                model[i].0.extend(ds.iter().map(key_d));
                log.push(format!("v{i}.extend({ds:?})"));
            }
            4 => {
                let j = rng.usize_below(n_vals);
                let other = vals[j].clone();
                let other_m = model[j].clone();
                vals[i].extend_from(other);
                model[i].0.extend(other_m.0);
                model[i].1.extend(other_m.1);
                log.push(format!("v{i}.extend_from(v{j}.clone())"));
            }
            5 => {
                let ds = batch(&mut rng, &u.derives, true);
                vals[i] = ds.iter().map(|s| parse_path(s)).collect::<Derives>();
                model[i] = (ds.iter().map(key_d).collect(), BTreeSet::new());
                log.push(format!("v{i} = from_iter({ds:?})"));
            }
            _ => {
                let j = rng.usize_below(n_vals);
                vals[i] = vals[j].clone();
                model[i] = model[j].clone();
                log.push(format!("v{i} = v{j}.clone()"));
            }
        }
    }
    for i in 0..n_vals {
        let got: Sets = (set_of(vals[i].derives()), set_of(vals[i].attributes()));
        if got != model[i] {
            return (
                n_ops as u64,
                Some(format!("Derives value v{i} after [{}]: derives()/attributes() give {got:?}, the calls amount to {:?}", log.join("; "), model[i])),
            );
        }
        // rendering: every member exactly once
        let v = &vals[i];
        let text = quote::quote!( #v pub struct Probe; ).to_string();
        match observe::item_attrs(&text) {
            Ok(items) if items.len() == 1 => {
                let d: Vec<String> = items[0].derives.iter().map(|s| nospace(s)).collect();
                let a: Vec<String> = items[0].attrs.iter().map(|s| nospace(s)).collect();
                let ds: BTreeSet<String> = d.iter().cloned().collect();
                let as_: BTreeSet<String> = a.iter().cloned().collect();
                if ds != model[i].0 || as_ != model[i].1 || d.len() != ds.len() || a.len() != as_.len() {
                    return (
                        n_ops as u64,
                        Some(format!("Derives value v{i} after [{}] renders derives {d:?} attributes {a:?}, the calls amount to {:?}", log.join("; "), model[i])),
                    );
                }
            }
            Ok(items) => return (n_ops as u64, Some(format!("rendering of a Derives value gives {} items", items.len()))),
            Err(e) => return (n_ops as u64, Some(format!("rendering of Derives value v{i} after [{}] does not parse: {e}", log.join("; ")))),
        }
    }
    (n_ops as u64, None)
}

// ---------------------------------------------------------------------------
// C11 reads
// ---------------------------------------------------------------------------

fn registry_has_path(reg: &PortableRegistry, segs: &[String]) -> bool {
    reg.types.iter().any(|t| t.ty.path.segments == segs)
}

/// Judge validation + similar paths against expectations derived from the observed state.
fn judge_c11(b: &Builders, m: &Model, u: &Universe, raw: &mut Vec<(String, String)>, stats: &mut Stats) -> Option<(String, String)> {
    // observed builder state, per path: union over the (up to two) entries of that path
    let mut d_by_path: BTreeMap<String, BTreeSet<String>> = BTreeMap::new();
    let mut a_by_path: BTreeMap<String, BTreeSet<String>> = BTreeMap::new();
    let mut segs: BTreeMap<String, Vec<String>> = BTreeMap::new();
    let mut entries_per_path: BTreeMap<String, usize> = BTreeMap::new();
    for (p, d) in b.derives.derives_on_specific_types() {
        let k = nospace(&tokens_of(&p.path));
        segs.insert(k.clone(), p.path.segments.iter().map(|s| s.ident.to_string()).collect());
        *entries_per_path.entry(k.clone()).or_default() += 1;
        d_by_path.entry(k.clone()).or_default().extend(set_of(d.derives()));
        a_by_path.entry(k).or_default().extend(set_of(d.attributes()));
    }
    let empty = PortableRegistry { types: vec![] };
    for (which, reg) in [("probe", &*u.reg), ("foreign", &*u.foreign), ("empty", &empty)] {
        let mut want_d = BTreeMap::new();
        let mut want_a = BTreeMap::new();
        let mut want_s = BTreeSet::new();
        let mut both_ways_unknown = false;
        for (k, s) in &segs {
            if registry_has_path(reg, s) {
                continue;
            }
            if !d_by_path[k].is_empty() {
                want_d.insert(k.clone(), d_by_path[k].clone());
            }
            if !a_by_path[k].is_empty() {
                want_a.insert(k.clone(), a_by_path[k].clone());
            }
            // workload side: the history registered this unknown path specifically and recursively
            if m.specific.contains_key(k) && m.recursive.contains_key(k) {
                both_ways_unknown = true;
            }
        }
        for (k, s) in b.subs.iter() {
            if !registry_has_path(reg, k) {
                want_s.insert((
                    nospace(&k.join("::")),
                    nospace(&tokens_of(s.path())),
                ));
            }
        }
        let got = match entropy::catch(|| observe::validation(&b.subs, &b.derives, reg)) {
            Ok(g) => g,
            Err(p) => {
                return Some((
                    "validation-panics".into(),
                    format!("validate_substitutes_and_derives_against_registry ({which} registry) panicked: {p}"),
                ))
            }
        };
        raw.push((format!("SettingsValidationError vectors ({which})"), got.raw_order.clone()));
        let want_ok = want_d.is_empty() && want_a.is_empty() && want_s.is_empty();
        if which == "probe" {
            stats.c11_unknown_paths_max = stats
                .c11_unknown_paths_max
                .max(want_d.len().max(want_a.len()) + want_s.len());
            if both_ways_unknown {
                stats.c11_both_ways_unknown += 1;
            }
            if want_ok {
                stats.c11_ok += 1
            } else {
                stats.c11_err += 1
            }
        }
        if let Some(r) = &got.repeated_path {
            return Some((
                "validation-path-listed-twice".into(),
                format!("{which} registry: {r} occurs twice in the error"),
            ));
        }
        if got.ok != want_ok {
            return Some((
                "validation-ok-mismatch".into(),
                format!(
                    "{which} registry: validation returned {} but unknown derives {:?} attrs {:?} substitutes {:?}",
                    if got.ok { "Ok" } else { "Err" },
                    want_d, want_a, want_s
                ),
            ));
        }
        if got.derives != want_d {
            return Some((
                "validation-derives".into(),
                format!("{which} registry: derives_for_unknown_types {:?}, expected {:?}", got.derives, want_d),
            ));
        }
        if got.attrs != want_a {
            return Some((
                "validation-attributes".into(),
                format!("{which} registry: attributes_for_unknown_types {:?}, expected {:?}", got.attrs, want_a),
            ));
        }
        if got.subs != want_s {
            return Some((
                "validation-substitutes".into(),
                format!("{which} registry: substitutes_for_unknown_types {:?}, expected {:?}", got.subs, want_s),
            ));
        }
    }
    // path membership asked directly (validation.rs `registry_contains_type_path`): every universe
    // path, every query, and prefixes / suffixes / extensions of them
    {
        use scale_typegen::typegen::validation::registry_contains_type_path;
        let mut cands: BTreeSet<Vec<String>> = BTreeSet::new();
        for p in u.paths.iter().chain(u.queries.iter()) {
            let s = idents_of(p);
            if s.len() > 1 {
                cands.insert(s[1..].to_vec());
                cands.insert(s[..s.len() - 1].to_vec());
            }
            let mut ext = s.clone();
            ext.push(s.last().cloned().unwrap_or_else(|| "X".into()));
            cands.insert(ext);
            cands.insert(s);
        }
        cands.insert(vec![]);
        for (which, reg) in [("probe", &*u.reg), ("foreign", &*u.foreign), ("empty", &empty)] {
            for c in &cands {
                let want = registry_has_path(reg, c);
                let got = match entropy::catch(|| registry_contains_type_path(reg, c)) {
                    Ok(g) => g,
                    Err(p) => {
                        return Some((
                            "membership-panics".into(),
                            format!("registry_contains_type_path({which}, {c:?}) panicked: {p}"),
                        ))
                    }
                };
                stats.c11_membership_queries += 1;
                if want {
                    stats.c11_membership_hits += 1;
                }
                if got != want {
                    return Some((
                        "path-membership".into(),
                        format!("registry_contains_type_path({which} registry, {c:?}) = {got}, but {}", if want { "an entry has exactly this path" } else { "no entry has this path" }),
                    ));
                }
            }
        }
    }
    // similar paths
    for q in &u.queries {
        let qp = parse_path(q);
        let last = qp.segments.last().map(|s| s.ident.to_string());
        let want: Vec<String> = match &last {
            None => vec![],
            Some(l) => u
                .reg
                .types
                .iter()
                .filter(|t| t.ty.path.segments.last() == Some(l))
                .map(|t| t.ty.path.segments.join("::"))
                .collect(),
        };
        let got = match entropy::catch(|| similar_type_paths_in_registry(&u.reg, &qp)) {
            Ok(g) => g,
            Err(p) => {
                return Some((
                    "similar-paths-panics".into(),
                    format!("similar_type_paths_in_registry({q:?}) panicked: {p}"),
                ))
            }
        };
        let got: Vec<String> = got.iter().map(|p| nospace(&tokens_of(p))).collect();
        if !want.is_empty() {
            stats.c11_similar_hits += 1;
        }
        if got != want {
            return Some((
                "similar-paths".into(),
                format!("similar_type_paths_in_registry({q:?}) = {got:?}, expected {want:?} (registry order, once per entry)"),
            ));
        }
    }
    None
}

// ---------------------------------------------------------------------------
// one history
// ---------------------------------------------------------------------------

#[derive(Default, Clone, Debug)]
pub struct Stats {
    pub ops: u64,
    pub outcomes: BTreeMap<String, u64>,
    pub overwrites: u64,
    pub blocked_if_absent: u64,
    pub mid_batch_rejections: u64,
    /// workload side: `extend` calls whose defective element comes after at least one valid one
    pub extend_defect_after_prefix: u64,
    /// workload side: calls generated per expected error kind
    pub expected_kinds: BTreeMap<String, u64>,
    pub both_ways: u64,
    pub e2e_reads: u64,
    pub flat_reads: u64,
    pub derives_value_calls: u64,
    pub e2e_items_with_recursive: u64,
    pub reads: u64,
    pub c11_ok: u64,
    pub c11_err: u64,
    pub c11_unknown_paths_max: usize,
    pub c11_both_ways_unknown: u64,
    pub c11_similar_hits: u64,
    pub c11_membership_queries: u64,
    pub c11_membership_hits: u64,
    pub model_states: BTreeSet<u64>,
    pub canonical_comparisons: u64,
}

pub struct HistoryResult {
    pub log: Vec<String>,
    pub raw: Vec<(String, String)>,
    pub violation: Option<(String, String)>,
    pub stats: Stats,
}

#[derive(Clone, Copy, PartialEq, Eq, Debug)]
pub enum Prop {
    C16,
    C11,
}

fn op_kind(op: &Op) -> &'static str {
    match op {
        Op::DerivesAll(_) => "add_derives_for_all",
        Op::AttrsAll(_) => "add_attributes_for_all",
        Op::SettingsDerivesAll(_) => "settings.add_derives_for_all",
        Op::DerivesFor { recursive: true, .. } => "add_derives_for(recursive)",
        Op::DerivesFor { .. } => "add_derives_for",
        Op::AttrsFor { recursive: true, .. } => "add_attributes_for(recursive)",
        Op::AttrsFor { .. } => "add_attributes_for",
        Op::SubInsert { .. } => "insert",
        Op::SubInsertIfAbsent { .. } => "insert_if_not_exists",
        Op::SubExtend(_) => "extend",
        Op::SettingsSubstitute { .. } => "settings.substitute",
    }
}

/// Execute a history against the real builders and the model (on the execution thread).
pub fn run_history(u: &Universe, hist: &[HOp], prop: Prop, perm_seed: u64) -> HistoryResult {
    let mut b = Builders::new();
    let mut m = Model::default();
    let mut log = vec![];
    let mut raw = vec![];
    let mut stats = Stats::default();
    let mut violation: Option<(String, String)> = None;
    let fail = |v: &mut Option<(String, String)>, class: &str, detail: String| {
        if v.is_none() {
            *v = Some((class.to_string(), detail));
        }
    };
    for (i, h) in hist.iter().enumerate() {
        stats.ops += 1;
        match &h.expect {
            Expect::Accept => {}
            Expect::Reject(k) => *stats.expected_kinds.entry(k.name().to_string()).or_default() += 1,
            Expect::ExtendReject { at, err } => {
                *stats.expected_kinds.entry(err.name().to_string()).or_default() += 1;
                if *at > 0 {
                    stats.extend_defect_after_prefix += 1;
                }
            }
        }
        let before = read_back(&b, u, &mut vec![]);
        // bookkeeping for reach
        match &h.op {
            Op::SubInsert { src, .. } | Op::SettingsSubstitute { src, .. }
                if h.expect == Expect::Accept && m.rules.contains_key(&idents_of(src)) =>
            {
                stats.overwrites += 1
            }
            Op::SubInsertIfAbsent { src, .. }
                if h.expect == Expect::Accept && m.rules.contains_key(&idents_of(src)) =>
            {
                stats.blocked_if_absent += 1
            }
            Op::DerivesFor { path, recursive, .. } | Op::AttrsFor { path, recursive, .. } => {
                let other = if *recursive { &m.specific } else { &m.recursive };
                if other.contains_key(&key_of_path(path)) {
                    stats.both_ways += 1;
                }
            }
            _ => {}
        }
        let res = match entropy::catch(|| b.apply(&h.op)) {
            Ok(r) => r,
            Err(p) => {
                if p.starts_with("harness:") {
                    fail(&mut violation, "harness-panic", p);
                } else {
                    fail(&mut violation, "builder-panics", format!("op {i} {:?} panicked: {p}", h.op));
                }
                break;
            }
        };
        let outcome = match &res {
            Ok(()) => "accepted".to_string(),
            Err(k) => format!("rejected:{}", k.name()),
        };
        *stats
            .outcomes
            .entry(format!("{} -> {}", op_kind(&h.op), outcome))
            .or_default() += 1;
        log.push(format!("op{i} {} {outcome}", h.op.to_json()));
        if prop == Prop::C16 {
            match (&h.expect, &res) {
                (Expect::Accept, Ok(())) => m.apply(&h.op),
                (Expect::Accept, Err(k)) => {
                    fail(
                        &mut violation,
                        "valid-call-rejected",
                        format!("op {i} {} was rejected with {}", h.op.to_json(), k.name()),
                    );
                }
                (Expect::Reject(want), Err(k)) | (Expect::ExtendReject { err: want, .. }, Err(k)) => {
                    if want != k {
                        fail(
                            &mut violation,
                            "wrong-error-kind",
                            format!("op {i} {}: rejected with {}, documented kind is {}", h.op.to_json(), k.name(), want.name()),
                        );
                    }
                    // a rejected insertion leaves the rules unchanged; for extend the elements
                    // before the rejected one may (element-wise) or may not (all-or-nothing)
                    // have been applied - neither reading is imposed
                    let after = read_back(&b, u, &mut vec![]);
                    let mut ok = after == before;
                    if let (Expect::ExtendReject { at, .. }, Op::SubExtend(v)) = (&h.expect, &h.op) {
                        let mut m2 = m.clone();
                        m2.apply(&Op::SubExtend(v[..*at].to_vec()));
                        if !ok && after == model_readback(&m2, u) {
                            ok = true;
                            m = m2;
                            if *at > 0 {
                                stats.mid_batch_rejections += 1;
                            }
                        }
                    }
                    if !ok {
                        fail(
                            &mut violation,
                            "rejected-call-changed-state",
                            format!("op {i} {} was rejected but the read-back changed: {}", h.op.to_json(), describe_diff(&after, &before)),
                        );
                    }
                }
                (Expect::Reject(want), Ok(())) | (Expect::ExtendReject { err: want, .. }, Ok(())) => {
                    fail(
                        &mut violation,
                        "invalid-call-accepted",
                        format!("op {i} {} was accepted, documented error kind is {}", h.op.to_json(), want.name()),
                    );
                }
            }
        } else if res.is_ok() {
            // C11 does not judge the builders; keep the model only for reach statistics
            m.apply(&h.op);
        }
        stats.model_states.insert(m.digest());
        if violation.is_some() {
            break;
        }
        if (hist.len() + i) % 4 == 0 {
            // settings get rendered between builder calls in real use (see c06.rs)
            use quote::ToTokens;
            let _ = b.derives.default_derives().to_token_stream();
            let _ = b.derives.clone().default_derives().to_token_stream();
        }
        if h.read_after {
            stats.reads += 1;
            let real = read_back(&b, u, &mut raw);
            log.push(format!("read{i} {:016x}", Digest::of_str(&format!("{real:?}"))));
            match prop {
                Prop::C16 => {
                    let want = model_readback(&m, u);
                    if real != want {
                        fail(
                            &mut violation,
                            "readback-differs-from-model",
                            format!("after op {i} {}: {}", h.op.to_json(), describe_diff(&real, &want)),
                        );
                        break;
                    }
                }
                Prop::C11 => {
                    if let Some(v) = judge_c11(&b, &m, u, &mut raw, &mut stats) {
                        violation = Some(v);
                        break;
                    }
                }
            }
        }
        if h.e2e_after && prop == Prop::C16 {
            stats.e2e_reads += 1;
            let real = read_back(&b, u, &mut vec![]);
            let got = e2e_read(&b, u);
            let want = e2e_expect(&real, &m, u);
            stats.e2e_items_with_recursive +=
                want.values().filter(|(lo, _)| *lo != real.global).count() as u64;
            if let Ok(g) = &got {
                log.push(format!("e2e{i} {:016x}", Digest::of_str(&format!("{g:?}"))));
            }
            if let Some(d) = judge_e2e(&got, &want, "root") {
                fail(&mut violation, "generated-derives-differ", format!("after op {i}: {d}"));
                break;
            }
            // the same question asked of the flattened registry (the API used when single types
            // are generated by hand)
            stats.flat_reads += 1;
            let flat = match entropy::catch(|| flat_read(&b, u)) {
                Ok(f) => f,
                Err(p) => Err(format!("panic: {p}")),
            };
            if let Ok((f, _)) = &flat {
                log.push(format!("flat{i} {:016x}", Digest::of_str(&format!("{f:?}"))));
            }
            if let Some(d) = judge_flat(&flat, &want, &real.global) {
                fail(&mut violation, "flat-derives-differ", format!("after op {i}: {d}"));
                break;
            }
            // refinement at the output level: the history-built settings must generate exactly
            // what the model's settings, registered once each in canonical order, generate
            // (this is where a stale parameter mapping of an overwritten rule would show)
            let mut canon = Builders::new();
            let mut canon_ok = true;
            for op in m.canonical_ops() {
                if canon.apply(&op).is_err() {
                    canon_ok = false;
                }
            }
            if canon_ok {
                stats.canonical_comparisons += 1;
                let sw = Switches {
                    compact_as: None,
                    ..Switches::standard()
                };
                let t_hist = observe::gen_tokens(
                    &u.reg,
                    &sw.settings(Builders {
                        derives: b.derives.clone(),
                        subs: b.subs.clone(),
                    }),
                );
                let t_canon = observe::gen_tokens(&u.reg, &sw.settings(canon));
                if t_hist != t_canon {
                    let (a, c) = (
                        t_hist.unwrap_or_else(|e| format!("Err:{e}")),
                        t_canon.unwrap_or_else(|e| format!("Err:{e}")),
                    );
                    fail(
                        &mut violation,
                        "history-not-equivalent-to-its-settings",
                        format!(
                            "after op {i}: generating with the history-built settings differs from generating with the same settings registered once each\n{}",
                            crate::c06::first_diff(&a, &c)
                        ),
                    );
                    break;
                }
            }
        }
    }
    if violation.is_none() && prop == Prop::C16 {
        match entropy::catch(|| derives_value_history(u, perm_seed)) {
            Ok((n, v)) => {
                stats.derives_value_calls += n;
                if let Some(d) = v {
                    fail(&mut violation, "derives-value-differs-from-model", d);
                }
            }
            Err(p) => fail(&mut violation, "builder-panics", format!("Derives value history panicked: {p}")),
        }
    }
    // order / repetition independence: a second instance gets the derive and attribute
    // registrations permuted and partly repeated; substitutes keep their order
    if violation.is_none() && prop == Prop::C16 {
        let mut rng = Rng::new(perm_seed);
        let accepted: Vec<&HOp> = hist.iter().filter(|h| h.expect == Expect::Accept).collect();
        let mut d_ops: Vec<Op> = accepted
            .iter()
            .filter(|h| !matches!(h.op, Op::SubInsert { .. } | Op::SubInsertIfAbsent { .. } | Op::SubExtend(_) | Op::SettingsSubstitute { .. }))
            .map(|h| h.op.clone())
            .collect();
        let reps = rng.usize_below(3);
        for _ in 0..reps {
            if !d_ops.is_empty() {
                let x = rng.pick(&d_ops).clone();
                d_ops.push(x);
            }
        }
        rng.shuffle(&mut d_ops);
        let mut b2 = Builders::new();
        for op in &d_ops {
            let _ = b2.apply(op);
        }
        b2.subs = b.subs.clone();
        let r1 = read_back(&b, u, &mut vec![]);
        let r2 = read_back(&b2, u, &mut vec![]);
        if r1 != r2 {
            fail(
                &mut violation,
                "order-or-repetition-dependence",
                format!("a permutation with repetition of the derive/attribute calls reads back differently: {}", describe_diff(&r2, &r1)),
            );
        } else if !d_ops.is_empty() {
            let g1 = e2e_read(&b, u);
            let g2 = e2e_read(&b2, u);
            if g1 != g2 {
                fail(
                    &mut violation,
                    "order-or-repetition-dependence",
                    format!("generated derives differ for a permuted history: {g1:?} vs {g2:?}"),
                );
            }
        }
    }
    HistoryResult {
        log,
        raw,
        violation,
        stats,
    }
}

// ---------------------------------------------------------------------------
// runs, minimisation, replay
// ---------------------------------------------------------------------------

pub struct Plan {
    pub u: Universe,
    pub hist: Vec<HOp>,
    pub entropy: [u64; 2],
    pub perm_seed: u64,
}

pub fn plan_run(w: &World, prop: Prop, root: u64, run: u64) -> Plan {
    let t = match prop {
        Prop::C16 => "C16",
        Prop::C11 => "C11",
    };
    let rs = mix(root, tag(t), run);
    let mut rng = Rng::new(rs).sub("universe");
    let u = gen_universe(w, &mut rng, prop);
    let hist = gen_history(&u, mix(rs, tag("history"), 0));
    Plan {
        u,
        hist,
        entropy: [mix(rs, tag("entropy"), 0), mix(rs, tag("entropy"), 1)],
        perm_seed: mix(rs, tag("perm"), 0),
    }
}

fn exec(u: &Universe, hist: &[HOp], prop: Prop, perm_seed: u64, entropy_seed: u64) -> Result<HistoryResult, String> {
    entropy::execution(entropy_seed, || run_history(u, hist, prop, perm_seed)).0
}

/// Verdict over the two schedules of one history.
fn verdict(u: &Universe, hist: &[HOp], prop: Prop, perm_seed: u64, entropy: [u64; 2]) -> (Option<(String, String)>, Vec<Result<HistoryResult, String>>) {
    let rs: Vec<_> = entropy
        .iter()
        .map(|e| exec(u, hist, prop, perm_seed, *e))
        .collect();
    for (k, r) in rs.iter().enumerate() {
        match r {
            Err(p) => {
                let class = if p.starts_with("harness:") {
                    "harness-panic"
                } else {
                    "panic-outside-observation"
                };
                return (Some((class.into(), format!("schedule {k}: {p}"))), rs);
            }
            Ok(h) => {
                if let Some(v) = &h.violation {
                    return (Some(v.clone()), rs);
                }
            }
        }
    }
    let (a, b) = (rs[0].as_ref().unwrap(), rs[1].as_ref().unwrap());
    if a.log != b.log {
        let i = a
            .log
            .iter()
            .zip(b.log.iter())
            .position(|(x, y)| x != y)
            .unwrap_or(a.log.len().min(b.log.len()));
        return (
            Some((
                "schedule-dependent-log".into(),
                format!(
                    "the normalised event logs of two hash-key schedules differ at entry {i}: {:?} vs {:?}",
                    a.log.get(i),
                    b.log.get(i)
                ),
            )),
            rs,
        );
    }
    (None, rs)
}

fn universe_json(u: &Universe) -> Value {
    json!({"probe_registry": u.reg_name, "paths": u.paths, "generic_paths": u.generic_paths, "derives": u.derives, "attrs": u.attrs, "queries": u.queries})
}

fn package(prop: Prop, plan: &Plan, hist: &[HOp], class: String, detail: String, run: u64) -> Violation {
    let property = match prop {
        Prop::C16 => "C16",
        Prop::C11 => "C11",
    };
    let kinds: BTreeSet<&str> = hist.iter().map(|h| op_kind(&h.op)).collect();
    Violation {
        property,
        class: class.clone(),
        key: format!("{class}|{}", kinds.into_iter().collect::<Vec<_>>().join("+")),
        summary: format!(
            "{property} {class} (run {run}, probe {}, minimised to {} calls)\n{detail}",
            plan.u.reg_name,
            hist.len()
        ),
        replay: json!({
            "engine": "c16",
            "judged_property": property,
            "universe": universe_json(&plan.u),
            "probe_registry_scale_hex": corpus::encode_hex(&plan.u.reg),
            "foreign_registry_scale_hex": corpus::encode_hex(&plan.u.foreign),
            "history": hist.iter().map(|h| h.to_json()).collect::<Vec<_>>(),
            "entropy_seeds": plan.entropy,
            "perm_seed": plan.perm_seed,
            "run": run,
        }),
        unminimised_replay: None,
    }
}

fn minimise(prop: Prop, plan: &Plan, class: &str) -> (Vec<HOp>, String) {
    let mut hist = plan.hist.clone();
    let same = |h: &[HOp]| -> Option<String> {
        let (v, _) = verdict(&plan.u, h, prop, plan.perm_seed, plan.entropy);
        v.filter(|(c, _)| c == class).map(|x| x.1)
    };
    let mut detail = same(&hist).unwrap_or_default();
    // make sure the tail keeps its reads
    let fix_tail = |h: &mut Vec<HOp>| {
        if let Some(l) = h.last_mut() {
            l.read_after = true;
            l.e2e_after = true;
        }
    };
    // drop suffix after the failing point, then single calls
    let mut i = hist.len();
    while i > 0 {
        i -= 1;
        if hist.len() <= 1 {
            break;
        }
        let mut cand = hist.clone();
        cand.remove(i);
        fix_tail(&mut cand);
        if let Some(d) = same(&cand) {
            hist = cand;
            detail = d;
        }
    }
    // shrink arguments: batches to single elements
    for i in 0..hist.len() {
        loop {
            let mut cand = hist.clone();
            let shrunk = match &mut cand[i].op {
                Op::DerivesAll(v) | Op::AttrsAll(v) | Op::SettingsDerivesAll(v) if v.len() > 1 => {
                    v.pop();
                    true
                }
                Op::DerivesFor { items, .. } | Op::AttrsFor { items, .. } if items.len() > 1 => {
                    items.pop();
                    true
                }
                _ => false,
            };
            if !shrunk {
                break;
            }
            if let Some(d) = same(&cand) {
                hist = cand;
                detail = d;
            } else {
                break;
            }
        }
    }
    (hist, detail)
}

pub fn replay(doc: &Value) -> i32 {
    let prop = match doc["judged_property"].as_str() {
        Some("C11") => Prop::C11,
        _ => Prop::C16,
    };
    let build = || -> Result<(Universe, Vec<HOp>, [u64; 2], u64), String> {
        let uj = &doc["universe"];
        let l = |k: &str| -> Vec<String> {
            uj[k]
                .as_array()
                .map(|a| a.iter().map(|x| x.as_str().unwrap_or_default().to_string()).collect())
                .unwrap_or_default()
        };
        let u = Universe {
            reg_name: uj["probe_registry"].as_str().unwrap_or_default().to_string(),
            reg: Arc::new(corpus::decode_hex(doc["probe_registry_scale_hex"].as_str().unwrap_or_default())?),
            foreign: Arc::new(corpus::decode_hex(doc["foreign_registry_scale_hex"].as_str().unwrap_or_default())?),
            paths: l("paths"),
            generic_paths: l("generic_paths"),
            derives: l("derives"),
            attrs: l("attrs"),
            queries: l("queries"),
        };
        let mut hist = vec![];
        for h in doc["history"].as_array().cloned().unwrap_or_default() {
            hist.push(HOp::from_json(&h)?);
        }
        let e = doc["entropy_seeds"].as_array().ok_or("entropy_seeds")?;
        Ok((
            u,
            hist,
            [e[0].as_u64().unwrap_or(0), e[1].as_u64().unwrap_or(1)],
            doc["perm_seed"].as_u64().unwrap_or(0),
        ))
    };
    let (u, hist, entropy, perm) = match build() {
        Ok(x) => x,
        Err(e) => {
            eprintln!("HARNESS ERROR: replay file: {e}");
            return 2;
        }
    };
    let want = doc["class"].as_str().unwrap_or_default();
    let (v, _) = verdict(&u, &hist, prop, perm, entropy);
    let pid = if prop == Prop::C11 { "C11" } else { "C16" };
    match v {
        Some((class, detail)) if class == want => {
            println!("{detail}");
            println!("VIOLATION property={pid} replay={}", doc["_path"].as_str().unwrap_or("?"));
            1
        }
        Some((class, detail)) => {
            println!("replay produced a different violation class {class} (wanted {want})\n{detail}");
            3
        }
        None => {
            println!("replay: no violation reproduced");
            0
        }
    }
}

struct RunReport {
    run: u64,
    needs_min: Option<String>,
    log_digest: u64,
    hist_digest: u64,
    nontrivial: bool,
    stats: Stats,
    order_variation: BTreeMap<String, bool>,
    violation: Option<Violation>,
    sample: Option<Value>,
    hist_len: usize,
}

fn one_run(w: &World, ctx: &Ctx, prop: Prop, run: u64, want_sample: bool) -> RunReport {
    let plan = plan_run(w, prop, ctx.seed, run);
    let (v, rs) = verdict(&plan.u, &plan.hist, prop, plan.perm_seed, plan.entropy);
    let mut log = Digest::new();
    let mut stats = Stats::default();
    let mut order_variation = BTreeMap::new();
    if let (Some(Ok(a)), Some(Ok(b))) = (rs.first(), rs.get(1)) {
        for l in &a.log {
            log.str(l);
        }
        // raw orders are part of the determinism log: same seed => same raw order
        for (k, val) in a.raw.iter().chain(b.raw.iter()) {
            log.str(k);
            log.str(val);
        }
        stats = a.stats.clone();
        let mut by_obs: BTreeMap<&String, (BTreeSet<&String>, BTreeSet<&String>)> = BTreeMap::new();
        for (k, val) in &a.raw {
            by_obs.entry(k).or_default().0.insert(val);
        }
        for (k, val) in &b.raw {
            by_obs.entry(k).or_default().1.insert(val);
        }
        // did the two schedules show a different raw order for the same observable?
        let mut seq_a: BTreeMap<&String, Vec<&String>> = BTreeMap::new();
        let mut seq_b: BTreeMap<&String, Vec<&String>> = BTreeMap::new();
        for (k, val) in &a.raw {
            seq_a.entry(k).or_default().push(val);
        }
        for (k, val) in &b.raw {
            seq_b.entry(k).or_default().push(val);
        }
        for (k, va) in seq_a {
            let differs = seq_b.get(k).map(|vb| *vb != va).unwrap_or(false);
            order_variation.insert(k.clone(), differs);
        }
    }
    let mut hd = Digest::new();
    hd.str(&plan.u.reg_name);
    for h in &plan.hist {
        hd.str(&h.to_json().to_string());
    }
    let nontrivial = plan.hist.len() >= 2
        && plan
            .hist
            .iter()
            .map(|h| op_kind(&h.op))
            .collect::<BTreeSet<_>>()
            .len()
            >= 2;
    let mut needs_min: Option<String> = None;
    let violation = v.map(|(class, detail)| {
        if class.starts_with("harness") {
            package(prop, &plan, &plan.hist, class, detail, run)
        } else {
            // minimised later, in run order and only for the first few (see `check`): a change that
            // breaks every wide history would otherwise cost thousands of minimisations
            needs_min = Some(detail.clone());
            package(prop, &plan, &plan.hist, class, detail, run)
        }
    });
    let sample = want_sample.then(|| {
        json!({"run": run, "universe": universe_json(&plan.u), "history": plan.hist.iter().map(|h| h.to_json()).collect::<Vec<_>>(), "entropy_seeds": plan.entropy, "log_digest": format!("{:016x}", log.0)})
    });
    RunReport {
        log_digest: log.0,
        hist_digest: hd.0,
        nontrivial,
        stats,
        order_variation,
        violation,
        sample,
        hist_len: plan.hist.len(),
        run,
        needs_min,
    }
}

/// Minimise a reported violation (re-derives the plan from the seed and the run index).
fn minimise_report(w: &World, ctx: &Ctx, prop: Prop, run: u64, v: Violation, detail: String) -> Violation {
    let plan = plan_run(w, prop, ctx.seed, run);
    let class = v.class.clone();
    let (h, d) = minimise(prop, &plan, &class);
    let d = if d.is_empty() { detail } else { d };
    let mut m = package(prop, &plan, &h, class, d, run);
    m.unminimised_replay = Some(v.replay);
    m
}

pub fn check(ctx: &Ctx, prop: Prop) -> i32 {
    let w = World::build();
    let runs = match (ctx.tier, prop) {
        (Tier::Quick, Prop::C16) => ctx.scaled(30_000),
        (Tier::Quick, Prop::C11) => ctx.scaled(30_000),
        (Tier::Thorough, Prop::C16) => ctx.scaled(1_500_000),
        (Tier::Thorough, Prop::C11) => ctx.scaled(1_500_000),
    };
    let reports = runner::par_runs(runs, ctx.workers, |i| one_run(&w, ctx, prop, i, i < 2 || i == 11));
    let pid: &'static str = if prop == Prop::C11 { "C11" } else { "C16" };
    let mut log = Digest::new();
    let mut distinct = BTreeSet::new();
    let mut agg = Stats::default();
    let mut samples = vec![];
    let mut violations = vec![];
    let mut seen = BTreeSet::new();
    let mut minimised = 0u32;
    let mut order_var: BTreeMap<String, u64> = BTreeMap::new();
    let mut len_hist: BTreeMap<&str, u64> = BTreeMap::new();
    let mut states = BTreeSet::new();
    for r in reports {
        log.u64(r.log_digest);
        if r.nontrivial {
            distinct.insert(r.hist_digest);
        }
        *len_hist
            .entry(match r.hist_len {
                0..=3 => "1-3",
                4..=8 => "4-8",
                9..=16 => "9-16",
                _ => "17-40",
            })
            .or_default() += 1;
        let s = &r.stats;
        agg.ops += s.ops;
        agg.overwrites += s.overwrites;
        agg.blocked_if_absent += s.blocked_if_absent;
        agg.mid_batch_rejections += s.mid_batch_rejections;
        agg.extend_defect_after_prefix += s.extend_defect_after_prefix;
        for (k, v) in &s.expected_kinds {
            *agg.expected_kinds.entry(k.clone()).or_default() += v;
        }
        agg.both_ways += s.both_ways;
        agg.e2e_reads += s.e2e_reads;
        agg.flat_reads += s.flat_reads;
        agg.derives_value_calls += s.derives_value_calls;
        agg.e2e_items_with_recursive += s.e2e_items_with_recursive;
        agg.reads += s.reads;
        agg.c11_ok += s.c11_ok;
        agg.c11_err += s.c11_err;
        agg.c11_unknown_paths_max = agg.c11_unknown_paths_max.max(s.c11_unknown_paths_max);
        agg.c11_both_ways_unknown += s.c11_both_ways_unknown;
        agg.c11_similar_hits += s.c11_similar_hits;
        agg.c11_membership_queries += s.c11_membership_queries;
        agg.c11_membership_hits += s.c11_membership_hits;
        agg.canonical_comparisons += s.canonical_comparisons;
        for (k, v) in &s.outcomes {
            *agg.outcomes.entry(k.clone()).or_default() += v;
        }
        states.extend(s.model_states.iter().copied());
        for (k, v) in &r.order_variation {
            if *v {
                *order_var.entry(k.clone()).or_default() += 1;
            } else {
                order_var.entry(k.clone()).or_default();
            }
        }
        if let Some(s) = r.sample {
            samples.push(s);
        }
        if let Some(v) = r.violation {
            if v.class.starts_with("harness") {
                eprintln!("HARNESS ERROR: {}", v.summary);
                return 2;
            }
            if violations.len() >= 6 {
                continue;
            }
            let v = match r.needs_min {
                Some(detail) if minimised < 12 => {
                    minimised += 1;
                    minimise_report(&w, ctx, prop, r.run, v, detail)
                }
                _ => v,
            };
            if seen.insert(v.key.clone()) {
                violations.push(v);
            }
        }
    }
    // reach probes that must not be zero. They are measured on the workload side (what was
    // generated and what the reference model says), never on what the implementation chose to
    // do, so that a behaviour-preserving implementation cannot drive them to zero; and they are
    // only consulted when no violation was found (a violation is the verdict).
    if runs >= 5000 && violations.is_empty() {
        let mut zero = vec![];
        if prop == Prop::C16 {
            for (k, v) in [
                ("overwrites", agg.overwrites),
                ("blocked insert_if_not_exists", agg.blocked_if_absent),
                ("extend with a defect after a valid prefix", agg.extend_defect_after_prefix),
                ("path registered both ways", agg.both_ways),
                ("end-to-end reads", agg.e2e_reads),
            ] {
                if v == 0 {
                    zero.push(k);
                }
            }
            for k in [
                "ExpectedAbsolutePath",
                "EmptySubstitutePath",
                "ExpectedAngleBracketGenerics",
                "InvalidFromType",
                "InvalidToType",
            ] {
                if agg.expected_kinds.get(k).copied().unwrap_or(0) == 0 {
                    zero.push(k);
                }
            }
        } else {
            for (k, v) in [
                ("validation Ok cases", agg.c11_ok),
                ("validation Err cases", agg.c11_err),
                ("unknown path registered both ways", agg.c11_both_ways_unknown),
                ("similar-path hits", agg.c11_similar_hits),
            ] {
                if v == 0 {
                    zero.push(k);
                }
            }
        }
        if !zero.is_empty() {
            eprintln!("HARNESS ERROR: reach probes at zero: {zero:?}");
            return 2;
        }
    }
    let wall = ctx.wall_s();
    let executions = runs * 2;
    let mut coverage = json!({
        "evaluations": executions,
        "distinct_nontrivial": distinct.len(),
        "rule": "one run = one seeded history (1-40 public builder calls over a per-run universe of 4-10 paths, some unknown to the probe registry, with ~0-30% deliberately invalid substitute calls, one defect per call) executed under two hash-key schedules = two evaluations; non-trivial = at least 2 calls of at least 2 different kinds; distinct = distinct (probe registry, history) digests",
        "samples": samples,
        "runs": runs,
        "builder_calls": agg.ops * 2,
        "history_length_histogram": len_hist,
        "distinct_reference_model_states": states.len(),
        "operation_x_outcome": agg.outcomes,
        "runs_per_hour": (runs as f64 / wall * 3600.0).round(),
        "seeds_per_hour": (executions as f64 / wall * 3600.0).round(),
        "simulated_time": "none - the system under test reads no clock",
        "fault_kinds_fired": {
            "hash_key_redraw (second schedule per history)": runs,
            "runs_where_the_two_schedules_iterated_an_observable_in_different_order": order_var,
        },
        "event_log_digest": format!("{:016x}", log.0),
        "unscheduled_draws_outside_executions": entropy::UNSCHEDULED_DRAWS.load(std::sync::atomic::Ordering::SeqCst),
        "components": report::REAL_VS_STUB,
        "exhaustive": false,
    });
    if prop == Prop::C16 {
        coverage["reach"] = json!({
            "overwrites_of_an_existing_rule": agg.overwrites,
            "insert_if_not_exists_blocked_by_existing_rule": agg.blocked_if_absent,
            "extend_calls_with_a_defect_after_a_valid_prefix": agg.extend_defect_after_prefix,
            "of_those_the_implementation_applied_the_prefix (informational; an atomic extend gives 0)": agg.mid_batch_rejections,
            "invalid_calls_generated_per_expected_kind": agg.expected_kinds,
            "path_registered_specifically_and_recursively": agg.both_ways,
            "full_readbacks_compared_with_model": agg.reads,
            "end_to_end_reads (flatten+generate+parse)": agg.e2e_reads,
            "flat_registry_reads (flatten_recursive_derives + resolve_derives_for_type per probe type + resolve of an unregistered path)": agg.flat_reads,
            "calls_on_Derives_values (insert_derive/insert_attribute/extend/extend_from/from_iter/clone vs ordered sets)": agg.derives_value_calls,
            "generated_items_carrying_path_or_recursive_derives": agg.e2e_items_with_recursive,
            "history_vs_canonical_settings_generations_compared": agg.canonical_comparisons,
        });
    } else {
        coverage["reach"] = json!({
            "validations_expected_ok (probe registry)": agg.c11_ok,
            "validations_expected_err (probe registry)": agg.c11_err,
            "max_unknown_paths_in_one_error": agg.c11_unknown_paths_max,
            "unknown_path_registered_specifically_and_recursively": agg.c11_both_ways_unknown,
            "similar_path_queries_with_hits": agg.c11_similar_hits,
            "direct_membership_queries (registry_contains_type_path on universe paths, queries, their prefixes/suffixes/extensions, x 3 registries)": agg.c11_membership_queries,
            "of_those_expected_true": agg.c11_membership_hits,
            "readback_points_judged": agg.reads,
        });
    }
    let assumptions = if prop == Prop::C16 {
        vec![
            "recursive roots are paths with exactly one id in the probe registry (the property is silent on shared root paths)".into(),
            "types reachable from a recursive root only through a type parameter that no field uses are don't-cares (lower/upper bound)".into(),
            "extend: neither element-wise nor all-or-nothing application of the prefix before a rejected element is imposed".into(),
            "CompactAs is not configured in probe generations".into(),
        ]
    } else {
        vec![
            "expectations are computed from the observed builder state (derives_on_specific_types, TypeSubstitutes::iter), so a broken builder is never reported under C11".into(),
            "results are compared as sets; the raw vector orders are only logged".into(),
        ]
    };
    report::finish(ctx, pid, "exploration", coverage, assumptions, violations)
}
