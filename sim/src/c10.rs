//! C10 - documented failure conditions are errors, not panics, and the only ones.
//!
//! Registry fault injector: a fault-free configuration (every corpus registry x
//! supported settings; no panic, no error but the duplicate-path one) and a
//! fault-injecting configuration (exactly one fault of a documented kind at
//! every site of fault-free base registries with unique paths), judged against
//! a reference walker that separates "must be reported" from "may be reported".

use std::collections::{BTreeMap, BTreeSet};
use std::sync::Arc;

use scale_info::{PortableRegistry, TypeDef};
use scale_typegen::typegen::ir::ToTokensWithSettings;
use scale_typegen::utils::ensure_unique_type_paths;
use scale_typegen::{TypeGenerator, TypegenError};
use serde_json::{json, Value};

use crate::c06::{self, World};
use crate::corpus;
use crate::entropy;
use crate::model::{bit_order_substitutes, Builders, Op, Switches};
use crate::observe::err_variant;
use crate::refmodel;
use crate::report::{self, Ctx, Tier, Violation};
use crate::rng::{mix, tag, Digest, Rng};
use crate::runner;

// ---------------------------------------------------------------------------
// faults
// ---------------------------------------------------------------------------

#[derive(Clone, Debug, PartialEq, Eq, PartialOrd, Ord)]
pub enum Site {
    Field {
        entry: u32,
        variant: Option<u32>,
        field: u32,
    },
    Param {
        entry: u32,
        idx: u32,
    },
    Elem {
        entry: u32,
    },
    TupleElem {
        entry: u32,
        idx: u32,
    },
    BitStore {
        entry: u32,
    },
    BitOrder {
        entry: u32,
    },
}

impl Site {
    pub fn entry(&self) -> u32 {
        match self {
            Site::Field { entry, .. }
            | Site::Param { entry, .. }
            | Site::Elem { entry }
            | Site::TupleElem { entry, .. }
            | Site::BitStore { entry }
            | Site::BitOrder { entry } => *entry,
        }
    }
    fn to_json(&self) -> Value {
        match self {
            Site::Field {
                entry,
                variant,
                field,
            } => json!({"site":"field","entry":entry,"variant":variant,"field":field}),
            Site::Param { entry, idx } => json!({"site":"type_param","entry":entry,"idx":idx}),
            Site::Elem { entry } => json!({"site":"element","entry":entry}),
            Site::TupleElem { entry, idx } => json!({"site":"tuple_element","entry":entry,"idx":idx}),
            Site::BitStore { entry } => json!({"site":"bit_store","entry":entry}),
            Site::BitOrder { entry } => json!({"site":"bit_order","entry":entry}),
        }
    }
    fn from_json(v: &Value) -> Result<Site, String> {
        let u = |k: &str| v.get(k).and_then(|x| x.as_u64()).map(|x| x as u32);
        let entry = u("entry").ok_or("site.entry")?;
        Ok(match v.get("site").and_then(|x| x.as_str()).ok_or("site.site")? {
            "field" => Site::Field {
                entry,
                variant: u("variant"),
                field: u("field").ok_or("site.field")?,
            },
            "type_param" => Site::Param {
                entry,
                idx: u("idx").ok_or("site.idx")?,
            },
            "element" => Site::Elem { entry },
            "tuple_element" => Site::TupleElem {
                entry,
                idx: u("idx").ok_or("site.idx")?,
            },
            "bit_store" => Site::BitStore { entry },
            "bit_order" => Site::BitOrder { entry },
            o => return Err(format!("unknown site {o}")),
        })
    }
}

#[derive(Clone, Debug, PartialEq, Eq)]
pub enum Fault {
    /// F1: types[entry].id = given (!= entry)
    IdMismatch { entry: u32, given: u32 },
    /// F2: flip one field's name between None and Some
    MixedFields {
        entry: u32,
        variant: Option<u32>,
        field: u32,
    },
    /// F3: no compact path configured
    NoCompactPath,
    /// F4: no decoded-bits path configured
    NoBitsPath,
    /// F5: a reference replaced by an id that is not in the registry
    Dangling { site: Site, id: u32 },
}

impl Fault {
    pub fn kind(&self) -> &'static str {
        match self {
            Fault::IdMismatch { .. } => "F1_id_mismatch",
            Fault::MixedFields { .. } => "F2_mixed_fields",
            Fault::NoCompactPath => "F3_no_compact_path",
            Fault::NoBitsPath => "F4_no_bits_path",
            Fault::Dangling { .. } => "F5_dangling_id",
        }
    }
    pub fn to_json(&self) -> Value {
        match self {
            Fault::IdMismatch { entry, given } => {
                json!({"kind":"F1_id_mismatch","entry":entry,"given":given})
            }
            Fault::MixedFields {
                entry,
                variant,
                field,
            } => json!({"kind":"F2_mixed_fields","entry":entry,"variant":variant,"field":field}),
            Fault::NoCompactPath => json!({"kind":"F3_no_compact_path"}),
            Fault::NoBitsPath => json!({"kind":"F4_no_bits_path"}),
            Fault::Dangling { site, id } => {
                json!({"kind":"F5_dangling_id","at":site.to_json(),"id":id})
            }
        }
    }
    pub fn from_json(v: &Value) -> Result<Option<Fault>, String> {
        if v.is_null() {
            return Ok(None);
        }
        let u = |k: &str| v.get(k).and_then(|x| x.as_u64()).map(|x| x as u32);
        Ok(Some(
            match v.get("kind").and_then(|x| x.as_str()).ok_or("fault.kind")? {
                "F1_id_mismatch" => Fault::IdMismatch {
                    entry: u("entry").ok_or("entry")?,
                    given: u("given").ok_or("given")?,
                },
                "F2_mixed_fields" => Fault::MixedFields {
                    entry: u("entry").ok_or("entry")?,
                    variant: u("variant"),
                    field: u("field").ok_or("field")?,
                },
                "F3_no_compact_path" => Fault::NoCompactPath,
                "F4_no_bits_path" => Fault::NoBitsPath,
                "F5_dangling_id" => Fault::Dangling {
                    site: Site::from_json(&v["at"])?,
                    id: u("id").ok_or("id")?,
                },
                o => return Err(format!("unknown fault kind {o}")),
            },
        ))
    }

    /// Apply to (registry, switches).
    pub fn apply(&self, reg: &mut PortableRegistry, sw: &mut Switches) {
        match self {
            Fault::IdMismatch { entry, given } => reg.types[*entry as usize].id = *given,
            Fault::MixedFields {
                entry,
                variant,
                field,
            } => {
                let t = &mut reg.types[*entry as usize].ty;
                let f = match (&mut t.type_def, variant) {
                    (TypeDef::Composite(c), None) => &mut c.fields[*field as usize],
                    (TypeDef::Variant(v), Some(vi)) => {
                        &mut v.variants[*vi as usize].fields[*field as usize]
                    }
                    _ => panic!("harness: MixedFields site does not exist"),
                };
                f.name = match f.name {
                    Some(_) => None,
                    None => Some("injected".to_string()),
                };
            }
            Fault::NoCompactPath => sw.compact = None,
            Fault::NoBitsPath => sw.bits = None,
            Fault::Dangling { site, id } => {
                let t = &mut reg.types[site.entry() as usize].ty;
                match (site, &mut t.type_def) {
                    (
                        Site::Field {
                            variant: None,
                            field,
                            ..
                        },
                        TypeDef::Composite(c),
                    ) => c.fields[*field as usize].ty.id = *id,
                    (
                        Site::Field {
                            variant: Some(vi),
                            field,
                            ..
                        },
                        TypeDef::Variant(v),
                    ) => v.variants[*vi as usize].fields[*field as usize].ty.id = *id,
                    (Site::Param { idx, .. }, _) => {
                        let p = t.type_params[*idx as usize]
                            .ty
                            .as_mut()
                            .expect("harness: param site has a type");
                        p.id = *id;
                    }
                    (Site::Elem { .. }, TypeDef::Sequence(s)) => s.type_param.id = *id,
                    (Site::Elem { .. }, TypeDef::Array(a)) => a.type_param.id = *id,
                    (Site::Elem { .. }, TypeDef::Compact(c)) => c.type_param.id = *id,
                    (Site::TupleElem { idx, .. }, TypeDef::Tuple(tp)) => {
                        tp.fields[*idx as usize].id = *id
                    }
                    (Site::BitStore { .. }, TypeDef::BitSequence(b)) => b.bit_store_type.id = *id,
                    (Site::BitOrder { .. }, TypeDef::BitSequence(b)) => b.bit_order_type.id = *id,
                    _ => panic!("harness: dangling site does not exist: {site:?}"),
                }
            }
        }
    }
}

/// Every reference site of a registry.
pub fn reference_sites(reg: &PortableRegistry) -> Vec<Site> {
    let mut out = vec![];
    for (i, t) in reg.types.iter().enumerate() {
        let e = i as u32;
        for (k, p) in t.ty.type_params.iter().enumerate() {
            if p.ty.is_some() {
                out.push(Site::Param {
                    entry: e,
                    idx: k as u32,
                });
            }
        }
        match &t.ty.type_def {
            TypeDef::Composite(c) => {
                for k in 0..c.fields.len() {
                    out.push(Site::Field {
                        entry: e,
                        variant: None,
                        field: k as u32,
                    });
                }
            }
            TypeDef::Variant(v) => {
                for (vi, var) in v.variants.iter().enumerate() {
                    for k in 0..var.fields.len() {
                        out.push(Site::Field {
                            entry: e,
                            variant: Some(vi as u32),
                            field: k as u32,
                        });
                    }
                }
            }
            TypeDef::Sequence(_) | TypeDef::Array(_) | TypeDef::Compact(_) => {
                out.push(Site::Elem { entry: e })
            }
            TypeDef::Tuple(tp) => {
                for k in 0..tp.fields.len() {
                    out.push(Site::TupleElem {
                        entry: e,
                        idx: k as u32,
                    });
                }
            }
            TypeDef::BitSequence(_) => {
                out.push(Site::BitStore { entry: e });
                out.push(Site::BitOrder { entry: e });
            }
            TypeDef::Primitive(_) => {}
        }
    }
    out
}

/// Every single fault of every documented kind for a base registry.
pub fn all_faults(reg: &PortableRegistry) -> Vec<Fault> {
    let n = reg.types.len() as u32;
    let mut out = vec![];
    for i in 0..n {
        let mut vals = BTreeSet::new();
        vals.insert(i + 1);
        if i > 0 {
            vals.insert(i - 1);
        }
        vals.insert(0);
        vals.insert(u32::MAX);
        // the position of a structurally identical entry (twin prelude/builtin entries exist in
        // real registries: Option<String> next to Option<&str>, Vec<Box<X>> next to Vec<X>)
        if let Some(j) = reg
            .types
            .iter()
            .position(|t| t.id != i && t.ty == reg.types[i as usize].ty)
        {
            vals.insert(j as u32);
        }
        vals.remove(&i);
        for given in vals {
            out.push(Fault::IdMismatch { entry: i, given });
        }
    }
    for (i, t) in reg.types.iter().enumerate() {
        match &t.ty.type_def {
            TypeDef::Composite(c) if c.fields.len() >= 2 => {
                for k in 0..c.fields.len() {
                    out.push(Fault::MixedFields {
                        entry: i as u32,
                        variant: None,
                        field: k as u32,
                    });
                }
            }
            TypeDef::Variant(v) => {
                for (vi, var) in v.variants.iter().enumerate() {
                    if var.fields.len() >= 2 {
                        for k in 0..var.fields.len() {
                            out.push(Fault::MixedFields {
                                entry: i as u32,
                                variant: Some(vi as u32),
                                field: k as u32,
                            });
                        }
                    }
                }
            }
            _ => {}
        }
    }
    if reg
        .types
        .iter()
        .any(|t| matches!(t.ty.type_def, TypeDef::Compact(_)))
    {
        out.push(Fault::NoCompactPath);
    }
    if reg
        .types
        .iter()
        .any(|t| matches!(t.ty.type_def, TypeDef::BitSequence(_)))
    {
        out.push(Fault::NoBitsPath);
    }
    for (k, site) in reference_sites(reg).into_iter().enumerate() {
        let ids = [n, n + 1 + (k as u32 % 7), u32::MAX];
        for id in ids {
            out.push(Fault::Dangling {
                site: site.clone(),
                id,
            });
        }
    }
    out
}

// ---------------------------------------------------------------------------
// the reference walker: which entries does any faithful generator have to open?
// ---------------------------------------------------------------------------

pub struct Walk {
    /// owners whose definition is emitted (named struct/enum, not substituted)
    pub generated: BTreeSet<u32>,
    /// entries whose type parameters and (for non struct/enum entries) elements
    /// have to be resolved in order to name a field type of some generated owner
    pub expanded: BTreeSet<u32>,
    /// the same, restricted to entries opened on behalf of an owner other than themselves:
    /// a fault in an owner's own type parameter changes that owner's parameter ids, so a
    /// reference back to itself may then be answered with the parameter name
    pub expanded_by_other: BTreeSet<u32>,
}

pub fn walk(reg: &PortableRegistry, substituted: &BTreeSet<Vec<String>>) -> Walk {
    let mut generated = BTreeSet::new();
    let mut expanded = BTreeSet::new();
    let mut expanded_by_other = BTreeSet::new();
    for (i, t) in reg.types.iter().enumerate() {
        if !refmodel::is_generated_kind(&t.ty) || substituted.contains(&t.ty.path.segments) {
            continue;
        }
        generated.insert(i as u32);
        let params: BTreeSet<u32> = t
            .ty
            .type_params
            .iter()
            .filter_map(|p| p.ty.map(|x| x.id))
            .collect();
        let (_, kids) = refmodel::children(&t.ty);
        let mut seen = BTreeSet::new();
        let mut stack = kids;
        while let Some(id) = stack.pop() {
            // a reference that equals one of the owner's parameter ids may be answered with the
            // parameter name without looking at the target: not a "must"
            if params.contains(&id) || !seen.insert(id) {
                continue;
            }
            let Some(tt) = reg.resolve(id) else { continue };
            expanded.insert(id);
            if id != i as u32 {
                expanded_by_other.insert(id);
            }
            let (ps, ks) = refmodel::children(tt);
            stack.extend(ps);
            if !matches!(tt.type_def, TypeDef::Composite(_) | TypeDef::Variant(_)) {
                stack.extend(ks);
                if let TypeDef::BitSequence(b) = &tt.type_def {
                    stack.push(b.bit_store_type.id);
                    stack.push(b.bit_order_type.id);
                }
            }
        }
    }
    Walk {
        generated,
        expanded,
        expanded_by_other,
    }
}

// ---------------------------------------------------------------------------
// one case
// ---------------------------------------------------------------------------

/// Outcome of one API call.
#[derive(Clone, Debug, PartialEq, Eq)]
pub enum Out {
    Ok,
    Err {
        variant: &'static str,
        /// TypeNotFound id / RegistryTypeIdsInvalid (expected, given)
        ids: Vec<u32>,
        text: String,
    },
    Panic(String),
}

impl Out {
    fn of<T>(r: Result<Result<T, TypegenError>, String>) -> Out {
        match r {
            Ok(Ok(_)) => Out::Ok,
            Ok(Err(e)) => {
                let ids = match &e {
                    TypegenError::TypeNotFound(id) => vec![*id],
                    TypegenError::RegistryTypeIdsInvalid {
                        given_ty_id,
                        expected_ty_id,
                        ..
                    } => vec![*expected_ty_id, *given_ty_id],
                    _ => vec![],
                };
                let mut text = e.to_string();
                if text.len() > 160 {
                    let mut cut = 160;
                    while !text.is_char_boundary(cut) {
                        cut -= 1;
                    }
                    text.truncate(cut);
                }
                Out::Err {
                    variant: err_variant(&e),
                    ids,
                    text,
                }
            }
            Err(p) => Out::Panic(p),
        }
    }
    pub fn short(&self) -> String {
        match self {
            Out::Ok => "Ok".into(),
            Out::Err { variant, ids, .. } => format!("Err({variant}{ids:?})"),
            Out::Panic(p) => format!("PANIC({p})"),
        }
    }
    fn is_panic(&self) -> bool {
        matches!(self, Out::Panic(_))
    }
    fn is_err(&self, v: &str, want_ids: &[u32]) -> bool {
        matches!(self, Out::Err { variant, ids, .. } if *variant == v && ids == want_ids)
    }
}

#[derive(Clone, Debug)]
pub struct CaseResult {
    pub generate: Out,
    pub dedup: Out,
    /// resolve_type_path(id) + emission, per id
    pub resolve: Vec<Out>,
    pub rejected_op: Option<String>,
}

#[derive(Clone)]
pub struct Case {
    pub reg_name: String,
    pub reg: Arc<PortableRegistry>,
    pub sw: Switches,
    pub ops: Vec<Op>,
    pub fault: Option<Fault>,
}

pub fn run_case(c: &Case, entropy_seed: u64) -> Result<CaseResult, String> {
    let (r, _) = entropy::execution(entropy_seed, || {
        let mut reg = (*c.reg).clone();
        let mut sw = c.sw.clone();
        if let Some(f) = &c.fault {
            f.apply(&mut reg, &mut sw);
        }
        let mut b = Builders::new();
        let mut rejected_op = None;
        for op in &c.ops {
            if let Err(e) = b.apply(op) {
                rejected_op = Some(format!("{op:?} -> {}", e.name()));
            }
        }
        let settings = sw.settings(b);
        let generate = Out::of(entropy::catch(|| {
            TypeGenerator::new(&reg, &settings)
                .generate_types_mod()
                .map(|m| m.to_token_stream(&settings).to_string())
        }));
        let dedup = Out::of(entropy::catch(|| {
            let mut r2 = reg.clone();
            ensure_unique_type_paths(&mut r2)
        }));
        let g = TypeGenerator::new(&reg, &settings);
        let resolve = (0..reg.types.len() as u32)
            .map(|id| {
                Out::of(entropy::catch(|| {
                    g.resolve_type_path(id)
                        .map(|p| p.to_token_stream(&settings).to_string())
                }))
            })
            .collect();
        CaseResult {
            generate,
            dedup,
            resolve,
            rejected_op,
        }
    });
    r
}

/// The oracle. Returns (class, detail) of the first disagreement with the property.
pub fn judge(c: &Case, r: &Result<CaseResult, String>) -> Option<(String, String)> {
    let r = match r {
        Ok(r) => r,
        Err(p) => {
            let class = if p.starts_with("harness:") {
                "harness-panic"
            } else {
                "panic-outside-observation"
            };
            return Some((class.into(), p.clone()));
        }
    };
    if let Some(op) = &r.rejected_op {
        return Some(("harness-op-rejected".into(), op.clone()));
    }
    // at all sites, in both configurations: never a panic
    if let Out::Panic(p) = &r.generate {
        return Some(("panic:generate".into(), p.clone()));
    }
    if let Out::Panic(p) = &r.dedup {
        return Some(("panic:ensure_unique_type_paths".into(), p.clone()));
    }
    if let Some((id, Out::Panic(p))) = r.resolve.iter().enumerate().find(|(_, o)| o.is_panic()) {
        return Some(("panic:resolve_type_path".into(), format!("id {id}: {p}")));
    }
    let reg = &*c.reg;
    let n = reg.types.len() as u32;
    match &c.fault {
        None => {
            let has_repeats = !corpus::repeated_paths(reg).is_empty();
            match &r.generate {
                Out::Ok => {}
                Out::Err { variant, .. } if *variant == "DuplicateTypePath" && has_repeats => {}
                o => {
                    return Some((
                        "fault-free:generate-fails".into(),
                        format!("generate_types_mod on a well-formed registry: {}", o.short()),
                    ))
                }
            }
            if r.dedup != Out::Ok {
                return Some((
                    "fault-free:dedup-fails".into(),
                    format!("ensure_unique_type_paths: {}", r.dedup.short()),
                ));
            }
            if let Some((id, o)) = r.resolve.iter().enumerate().find(|(_, o)| **o != Out::Ok) {
                return Some((
                    "fault-free:resolve-fails".into(),
                    format!("resolve_type_path({id}): {}", o.short()),
                ));
            }
            None
        }
        Some(Fault::IdMismatch { entry, given }) => {
            let want = [*entry, *given];
            if !r.generate.is_err("RegistryTypeIdsInvalid", &want) {
                return Some((
                    "F1:generate".into(),
                    format!(
                        "entry {entry} carries id {given}: generate_types_mod returned {} instead of RegistryTypeIdsInvalid{{expected {entry}, given {given}}}",
                        r.generate.short()
                    ),
                ));
            }
            if !r.dedup.is_err("RegistryTypeIdsInvalid", &want) {
                return Some((
                    "F1:dedup".into(),
                    format!(
                        "entry {entry} carries id {given}: ensure_unique_type_paths returned {} instead of RegistryTypeIdsInvalid{{expected {entry}, given {given}}}",
                        r.dedup.short()
                    ),
                ));
            }
            None
        }
        Some(Fault::MixedFields { entry, .. }) => {
            let w = walk(reg, &substituted_paths(&c.ops));
            let must = w.generated.contains(entry);
            let ok = match &r.generate {
                Out::Err { variant, .. } if *variant == "InvalidFields" => true,
                Out::Ok => !must,
                _ => false,
            };
            if !ok {
                return Some((
                    "F2:generate".into(),
                    format!(
                        "mixed named/unnamed fields in entry {entry} (generated: {must}): generate_types_mod returned {}",
                        r.generate.short()
                    ),
                ));
            }
            // the invalid-fields error is the documented answer to this fault wherever it is
            // noticed: de-duplication and path resolution may report it too
            others_clean(r, &["InvalidFields"])
        }
        Some(Fault::NoCompactPath) | Some(Fault::NoBitsPath) => {
            let compact = matches!(c.fault, Some(Fault::NoCompactPath));
            let variant = if compact {
                "CompactPathNone"
            } else {
                "DecodedBitsPathNone"
            };
            let is_kind = |t: &TypeDef<scale_info::form::PortableForm>| {
                if compact {
                    matches!(t, TypeDef::Compact(_))
                } else {
                    matches!(t, TypeDef::BitSequence(_))
                }
            };
            let w = walk(reg, &substituted_paths(&c.ops));
            let must = w
                .expanded
                .iter()
                .any(|id| is_kind(&reg.types[*id as usize].ty.type_def));
            let ok = match &r.generate {
                Out::Err { variant: v, .. } if *v == variant => true,
                Out::Ok => !must,
                _ => false,
            };
            if !ok {
                return Some((
                    format!("{}:generate", if compact { "F3" } else { "F4" }),
                    format!(
                        "no {} path configured (entry of that kind under a generated field: {must}): generate_types_mod returned {}",
                        if compact { "compact" } else { "decoded-bits" },
                        r.generate.short()
                    ),
                ));
            }
            for (id, o) in r.resolve.iter().enumerate() {
                let direct = is_kind(&reg.types[id].ty.type_def);
                let ok = match o {
                    Out::Err { variant: v, .. } if *v == variant => true,
                    Out::Ok => !direct,
                    _ => false,
                };
                if !ok {
                    return Some((
                        format!("{}:resolve", if compact { "F3" } else { "F4" }),
                        format!(
                            "resolve_type_path({id}) (entry is of that kind: {direct}) returned {}",
                            o.short()
                        ),
                    ));
                }
            }
            if r.dedup != Out::Ok {
                return Some((
                    "fault:dedup-unexpected".into(),
                    format!("ensure_unique_type_paths: {}", r.dedup.short()),
                ));
            }
            None
        }
        Some(Fault::Dangling { site, id }) => {
            debug_assert!(*id >= n);
            let w = walk(reg, &substituted_paths(&c.ops));
            let must = match site {
                Site::Field { entry, .. } => w.generated.contains(entry),
                Site::Param { entry, .. } => w.expanded_by_other.contains(entry),
                s => w.expanded.contains(&s.entry()),
            };
            let ok = match &r.generate {
                o if o.is_err("TypeNotFound", &[*id]) => true,
                Out::Ok => !must,
                _ => false,
            };
            if !ok {
                return Some((
                    "F5:generate".into(),
                    format!(
                        "reference {site:?} -> missing id {id} (must be followed: {must}): generate_types_mod returned {}",
                        r.generate.short()
                    ),
                ));
            }
            for (rid, o) in r.resolve.iter().enumerate() {
                let direct = !matches!(site, Site::Field { .. }) && site.entry() as usize == rid;
                let ok = match o {
                    o if o.is_err("TypeNotFound", &[*id]) => true,
                    Out::Ok => !direct,
                    _ => false,
                };
                if !ok {
                    return Some((
                        "F5:resolve".into(),
                        format!(
                            "reference {site:?} -> missing id {id}: resolve_type_path({rid}) (its own reference: {direct}) returned {}",
                            o.short()
                        ),
                    ));
                }
            }
            match &r.dedup {
                Out::Ok => None,
                o if o.is_err("TypeNotFound", &[*id]) => None,
                o => Some((
                    "fault:dedup-unexpected".into(),
                    format!("ensure_unique_type_paths: {}", o.short()),
                )),
            }
        }
    }
}

fn others_clean(r: &CaseResult, allow: &[&str]) -> Option<(String, String)> {
    let allowed = |o: &Out| match o {
        Out::Ok => true,
        Out::Err { variant, .. } => allow.contains(variant),
        Out::Panic(_) => false,
    };
    if !allowed(&r.dedup) {
        return Some((
            "fault:dedup-unexpected".into(),
            format!("ensure_unique_type_paths: {}", r.dedup.short()),
        ));
    }
    if let Some((id, o)) = r.resolve.iter().enumerate().find(|(_, o)| !allowed(o)) {
        return Some((
            "fault:resolve-unexpected".into(),
            format!("resolve_type_path({id}): {}", o.short()),
        ));
    }
    None
}

fn substituted_paths(ops: &[Op]) -> BTreeSet<Vec<String>> {
    let mut s = BTreeSet::new();
    let mut add = |src: &str| {
        let p = crate::model::parse_path(src);
        s.insert(
            p.segments
                .iter()
                .map(|x| x.ident.to_string())
                .collect::<Vec<_>>(),
        );
    };
    for op in ops {
        match op {
            Op::SubInsert { src, .. }
            | Op::SubInsertIfAbsent { src, .. }
            | Op::SettingsSubstitute { src, .. } => add(src),
            Op::SubExtend(v) => {
                for (src, _) in v {
                    add(src)
                }
            }
            _ => {}
        }
    }
    s
}

// ---------------------------------------------------------------------------
// workloads
// ---------------------------------------------------------------------------

fn standard_ops() -> Vec<Op> {
    let mut ops = bit_order_substitutes();
    ops.push(Op::DerivesAll(vec![
        "::codec::Encode".into(),
        "::codec::Decode".into(),
        "Debug".into(),
    ]));
    ops.push(Op::AttrsAll(vec!["#[codec(crate = ::codec)]".into()]));
    ops
}

fn alt_switches() -> Switches {
    Switches {
        root: "my_types".into(),
        alloc: Some("::alloc".into()),
        docs: false,
        codec_attrs: false,
        compact: Some("parity_scale_codec::Compact".into()),
        bits: Some("DecodedBits".into()),
        compact_as: None,
    }
}

/// Supported settings for the fault-free configuration: fixed ones plus seeded ones
/// (specific and recursive derives on present paths, substitutes for present paths).
fn fault_free_settings(reg: &PortableRegistry, seed: u64, n_random: usize) -> Vec<(Switches, Vec<Op>)> {
    let mut out = vec![
        (Switches::standard(), standard_ops()),
        (alt_switches(), vec![]),
    ];
    for k in 0..n_random {
        let mut rng = Rng::new(mix(seed, tag("ffs"), k as u64));
        let mut l = c06::gen_logical(&mut rng, reg);
        // supported settings: both paths configured
        l.switches.compact = Some("::codec::Compact".into());
        l.switches.bits = Some("::bits::DecodedBits".into());
        let ops = c06::linearise(&l, mix(seed, tag("ffl"), k as u64), None);
        out.push((l.switches, ops));
    }
    out
}

/// `ensure_unique_type_paths` as an input transformation; `None` if it fails or panics
/// (the failure itself is reported by the fault-free case on the raw registry).
fn dedup_on_execution_thread(reg: &PortableRegistry) -> Option<PortableRegistry> {
    let (r, _) = entropy::execution(7, || {
        let mut r2 = reg.clone();
        match entropy::catch(|| ensure_unique_type_paths(&mut r2)) {
            Ok(Ok(())) => Some(r2),
            _ => None,
        }
    });
    r.ok().flatten()
}

pub struct FaultFreeInput {
    pub name: String,
    pub reg: Arc<PortableRegistry>,
}

fn fault_free_inputs(w: &World, ctx: &Ctx) -> Vec<FaultFreeInput> {
    let mut v = vec![];
    for e in w.families.iter().chain(w.dups.iter()) {
        v.push(FaultFreeInput {
            name: e.name.clone(),
            reg: Arc::new(e.reg.clone()),
        });
    }
    // de-duplicated variants of the registries with clashing paths
    for e in w.dups.iter() {
        // the system under test only ever runs on execution threads, under catch
        if let Some(r) = dedup_on_execution_thread(&e.reg) {
            v.push(FaultFreeInput {
                name: format!("{}+dedup", e.name),
                reg: Arc::new(r),
            });
        }
    }
    v.push(FaultFreeInput {
        name: "polkadot:full".into(),
        reg: Arc::new(w.polkadot.clone()),
    });
    let (n_slices, n_derived) = match ctx.tier {
        Tier::Quick => (ctx.scaled(150), ctx.scaled(150)),
        Tier::Thorough => (ctx.scaled(3000), ctx.scaled(3000)),
    };
    let mut rng = Rng::new(mix(ctx.seed, tag("C10-ff"), 0));
    for _ in 0..n_slices {
        let k = 1 + rng.usize_below(6);
        let roots = rng.subset(&w.polkadot_named, k);
        v.push(FaultFreeInput {
            name: format!("polkadot:slice{roots:?}"),
            reg: Arc::new(corpus::slice(&w.polkadot, &roots)),
        });
    }
    // seeded programs registered the way scale-info does (see gen.rs), raw and de-duplicated
    let n_gen = match ctx.tier {
        Tier::Quick => ctx.scaled(400),
        Tier::Thorough => ctx.scaled(20_000),
    };
    for _ in 0..n_gen {
        let s = rng.next_u64();
        let r = crate::gen::random_registry(&mut Rng::new(s));
        if rng.chance(1, 3) {
            if let Some(r2) = dedup_on_execution_thread(&r) {
                v.push(FaultFreeInput {
                    name: format!("gen:{s:016x}+dedup"),
                    reg: Arc::new(r2),
                });
                continue;
            }
        }
        v.push(FaultFreeInput {
            name: format!("gen:{s:016x}"),
            reg: Arc::new(r),
        });
    }
    for i in 0..n_derived {
        let e = rng.pick(&w.families);
        let pairs = 1 + rng.usize_below(3);
        let r = if rng.chance(1, 4) {
            c06::inject_numbered_clash(&e.reg, &mut rng)
        } else {
            c06::inject_path_clash(&e.reg, &mut rng, pairs)
        };
        let (name, r) = if rng.chance(1, 2) {
            match dedup_on_execution_thread(&r) {
                Some(r2) => (format!("derived:clash#{i}+dedup:{}", e.name), r2),
                None => (format!("derived:clash#{i}:{}", e.name), r),
            }
        } else {
            (format!("derived:clash#{i}:{}", e.name), r)
        };
        v.push(FaultFreeInput {
            name,
            reg: Arc::new(r),
        });
    }
    v
}

/// A base for fault injection: unique paths, fault-free under the base settings.
pub struct Base {
    pub name: String,
    pub reg: Arc<PortableRegistry>,
    pub exhaustive: bool,
}

fn fault_bases(w: &World, ctx: &Ctx) -> Vec<Base> {
    let mut v = vec![];
    for e in w.families.iter() {
        let r = corpus::uniquify(&e.reg);
        v.push(Base {
            name: format!("{}+unique", e.name),
            reg: Arc::new(r),
            exhaustive: true,
        });
    }
    let mut rng = Rng::new(mix(ctx.seed, tag("C10-bases"), 0));
    let n_slices = match ctx.tier {
        Tier::Quick => ctx.scaled(12),
        Tier::Thorough => ctx.scaled(150),
    };
    for _ in 0..n_slices {
        let k = 1 + rng.usize_below(3);
        let roots = rng.subset(&w.polkadot_named, k);
        let r = corpus::uniquify(&corpus::slice(&w.polkadot, &roots));
        v.push(Base {
            name: format!("polkadot:slice{roots:?}+unique"),
            reg: Arc::new(r),
            exhaustive: ctx.tier == Tier::Thorough || r_small(&roots),
        });
    }
    let n_gen = match ctx.tier {
        Tier::Quick => ctx.scaled(12),
        Tier::Thorough => ctx.scaled(400),
    };
    for _ in 0..n_gen {
        let s = rng.next_u64();
        let r = corpus::uniquify(&crate::gen::random_registry(&mut Rng::new(s)));
        v.push(Base {
            name: format!("gen:{s:016x}+unique"),
            reg: Arc::new(r),
            exhaustive: true,
        });
    }
    if ctx.tier == Tier::Thorough {
        v.push(Base {
            name: "polkadot:full+unique".into(),
            reg: Arc::new(corpus::uniquify(&w.polkadot)),
            exhaustive: true,
        });
    } else {
        v.push(Base {
            name: "polkadot:full+unique".into(),
            reg: Arc::new(corpus::uniquify(&w.polkadot)),
            exhaustive: false,
        });
    }
    v
}

fn r_small(_roots: &[u32]) -> bool {
    false
}

// ---------------------------------------------------------------------------
// the check
// ---------------------------------------------------------------------------

struct CaseReport {
    kind: &'static str,
    must: bool,
    fired: bool,
    outcome: String,
    digest: u64,
    violation: Option<(String, String)>,
    case_idx: usize,
}

fn classify_must(c: &Case) -> bool {
    let reg = &*c.reg;
    match &c.fault {
        None => false,
        Some(Fault::IdMismatch { .. }) => true,
        Some(Fault::MixedFields { entry, .. }) => {
            walk(reg, &substituted_paths(&c.ops)).generated.contains(entry)
        }
        Some(Fault::NoCompactPath) => walk(reg, &substituted_paths(&c.ops))
            .expanded
            .iter()
            .any(|id| matches!(reg.types[*id as usize].ty.type_def, TypeDef::Compact(_))),
        Some(Fault::NoBitsPath) => walk(reg, &substituted_paths(&c.ops))
            .expanded
            .iter()
            .any(|id| matches!(reg.types[*id as usize].ty.type_def, TypeDef::BitSequence(_))),
        Some(Fault::Dangling { site, .. }) => {
            let w = walk(reg, &substituted_paths(&c.ops));
            match site {
                Site::Field { entry, .. } => w.generated.contains(entry),
                Site::Param { entry, .. } => w.expanded_by_other.contains(entry),
                s => w.expanded.contains(&s.entry()),
            }
        }
    }
}

fn package(c: &Case, class: String, detail: String, entropy_seed: u64) -> Violation {
    let config = if c.fault.is_some() {
        "fault-injecting"
    } else {
        "fault-free"
    };
    // identify the finding by what fails: for a panic the message and file (not the
    // line, which moves with unrelated edits); otherwise the input and the class
    let what = {
        let msg = detail.split(" @ ").next().unwrap_or(&detail);
        // "id 7: message" (resolve_type_path) -> "message"
        let msg = match msg.split_once(": ") {
            Some((pre, rest)) if pre.starts_with("id ") => rest,
            _ => msg,
        };
        let file = detail
            .split(" @ ")
            .nth(1)
            .map(|l| l.split(':').next().unwrap_or_default().to_string())
            .unwrap_or_default();
        format!("{}|{}", msg.chars().take(120).collect::<String>(), file)
    };
    let key = match &c.fault {
        None if class.starts_with("panic:") => format!("{config}|panic|{what}"),
        None => format!("{config}|{}|{class}", c.reg_name),
        Some(f) => format!("{config}|{}|{}|{class}", c.reg_name, f.to_json()),
    };
    Violation {
        property: "C10",
        class: class.clone(),
        key,
        summary: format!(
            "C10 {class} [{config}] on {} ({} types), fault {}\n{detail}",
            c.reg_name,
            c.reg.types.len(),
            c.fault
                .as_ref()
                .map(|f| f.to_json().to_string())
                .unwrap_or_else(|| "none".into())
        ),
        replay: json!({
            "engine": "c10",
            "registry_name": c.reg_name,
            "registry_scale_hex": corpus::encode_hex(&c.reg),
            "switches": c.sw.to_json(),
            "ops": c.ops.iter().map(|o| o.to_json()).collect::<Vec<_>>(),
            "fault": c.fault.as_ref().map(|f| f.to_json()).unwrap_or(Value::Null),
            "entropy_seed": entropy_seed,
        }),
        unminimised_replay: None,
    }
}

/// Shrink a failing fault case: keep only what the faulted entry (and, for nested sites, one
/// owner that reaches it) refers to. `retain()` renumbers ids, the fault descriptor follows.
fn shrink_fault_case(c: &Case, class: &str, entropy_seed: u64) -> Option<(Case, String)> {
    let fault = c.fault.as_ref()?;
    let entry = match fault {
        Fault::IdMismatch { entry, .. } | Fault::MixedFields { entry, .. } => *entry,
        Fault::Dangling { site, .. } => site.entry(),
        Fault::NoCompactPath | Fault::NoBitsPath => return None,
    };
    let reg = &*c.reg;
    // candidate root sets: the entry alone; the entry plus each named type that refers to it
    let mut candidates: Vec<Vec<u32>> = vec![vec![entry]];
    for (i, t) in reg.types.iter().enumerate() {
        if refmodel::is_generated_kind(&t.ty) && i as u32 != entry {
            let r = refmodel::reach(reg, i as u32);
            if r.with_params.contains(&entry) {
                candidates.push(vec![i as u32, entry]);
            }
        }
        if candidates.len() > 40 {
            break;
        }
    }
    let mut best: Option<(Case, String)> = None;
    for roots in candidates {
        let mut r2 = reg.clone();
        let keep: BTreeSet<u32> = roots.iter().copied().collect();
        let map = r2.retain(|id| keep.contains(&id));
        let Some(new_entry) = map.get(&entry).copied() else { continue };
        let n2 = r2.types.len() as u32;
        let cur = best.as_ref().map(|b| b.0.reg.types.len()).unwrap_or(reg.types.len());
        if r2.types.len() >= cur {
            continue;
        }
        let f2 = match fault {
            Fault::IdMismatch { given, .. } => {
                // keep the relation between position and wrong id
                let g = if *given == u32::MAX || *given == 0 {
                    *given
                } else if *given > entry {
                    new_entry + 1
                } else {
                    new_entry.saturating_sub(1)
                };
                if g == new_entry {
                    continue;
                }
                Fault::IdMismatch { entry: new_entry, given: g }
            }
            Fault::MixedFields { variant, field, .. } => Fault::MixedFields {
                entry: new_entry,
                variant: *variant,
                field: *field,
            },
            Fault::Dangling { site, id } => {
                let s2 = match site {
                    Site::Field { variant, field, .. } => Site::Field {
                        entry: new_entry,
                        variant: *variant,
                        field: *field,
                    },
                    Site::Param { idx, .. } => Site::Param { entry: new_entry, idx: *idx },
                    Site::Elem { .. } => Site::Elem { entry: new_entry },
                    Site::TupleElem { idx, .. } => Site::TupleElem { entry: new_entry, idx: *idx },
                    Site::BitStore { .. } => Site::BitStore { entry: new_entry },
                    Site::BitOrder { .. } => Site::BitOrder { entry: new_entry },
                };
                Fault::Dangling {
                    site: s2,
                    id: if *id == u32::MAX { *id } else { (*id).max(n2) },
                }
            }
            _ => continue,
        };
        let cand = Case {
            reg_name: format!("{} (slice around the faulted entry)", c.reg_name),
            reg: Arc::new(r2),
            sw: c.sw.clone(),
            ops: c.ops.clone(),
            fault: Some(f2),
        };
        let r = run_case(&cand, entropy_seed);
        if let Some((cl, d)) = judge(&cand, &r) {
            if cl == class {
                best = Some((cand, d));
            }
        }
    }
    best
}

/// Shrink a failing fault-free case: fewer ops, then a one-root slice of the registry.
fn minimise(c: &Case, class: &str, entropy_seed: u64) -> (Case, String) {
    let mut best = c.clone();
    let same = |cand: &Case| -> Option<String> {
        let r = run_case(cand, entropy_seed);
        judge(cand, &r).filter(|(cl, _)| cl == class).map(|x| x.1)
    };
    let mut detail = same(&best).unwrap_or_default();
    let mut i = 0;
    while i < best.ops.len() {
        let mut cand = best.clone();
        cand.ops.remove(i);
        if let Some(d) = same(&cand) {
            best = cand;
            detail = d;
        } else {
            i += 1;
        }
    }
    if best.fault.is_none() && best.reg.types.len() > 3 {
        let named: Vec<u32> = best
            .reg
            .types
            .iter()
            .enumerate()
            .filter(|(_, t)| refmodel::is_named(&t.ty))
            .map(|(i, _)| i as u32)
            .collect();
        let mut smallest: Option<(Case, String)> = None;
        for id in named.iter().take(300) {
            let r2 = corpus::slice(&best.reg, &[*id]);
            let cur = smallest
                .as_ref()
                .map(|s| s.0.reg.types.len())
                .unwrap_or(best.reg.types.len());
            if r2.types.len() >= cur {
                continue;
            }
            let mut cand = best.clone();
            cand.reg = Arc::new(r2);
            if let Some(d) = same(&cand) {
                smallest = Some((cand, d));
            }
        }
        if let Some((cnd, d)) = smallest {
            best = cnd;
            detail = d;
        }
    }
    (best, detail)
}

pub fn replay(doc: &Value) -> i32 {
    let reg = match corpus::decode_hex(doc["registry_scale_hex"].as_str().unwrap_or_default()) {
        Ok(r) => r,
        Err(e) => {
            eprintln!("HARNESS ERROR: replay registry: {e}");
            return 2;
        }
    };
    let parse = || -> Result<Case, String> {
        let sw = Switches::from_json(&doc["switches"])?;
        let mut ops = vec![];
        for o in doc["ops"].as_array().cloned().unwrap_or_default() {
            ops.push(Op::from_json(&o)?);
        }
        Ok(Case {
            reg_name: doc["registry_name"].as_str().unwrap_or_default().to_string(),
            reg: Arc::new(reg.clone()),
            sw,
            ops,
            fault: Fault::from_json(&doc["fault"])?,
        })
    };
    let c = match parse() {
        Ok(c) => c,
        Err(e) => {
            eprintln!("HARNESS ERROR: replay file: {e}");
            return 2;
        }
    };
    let seed = doc["entropy_seed"].as_u64().unwrap_or(0);
    let r = run_case(&c, seed);
    let want = doc["class"].as_str().unwrap_or_default();
    match judge(&c, &r) {
        Some((class, detail)) if class == want => {
            println!("{detail}");
            println!(
                "VIOLATION property=C10 replay={}",
                doc["_path"].as_str().unwrap_or("?")
            );
            1
        }
        Some((class, detail)) => {
            println!("replay produced a different violation class {class} (wanted {want})\n{detail}");
            3
        }
        None => {
            println!("replay: no violation reproduced");
            0
        }
    }
}

pub fn check(ctx: &Ctx) -> i32 {
    let w = World::build();
    let mut violations: Vec<Violation> = vec![];
    let mut seen_keys = BTreeSet::new();
    let mut harness_err: Option<String> = None;

    // ---- configuration 1: fault-free ----
    let inputs = fault_free_inputs(&w, ctx);
    let n_random = match ctx.tier {
        Tier::Quick => 3,
        Tier::Thorough => 12,
    };
    let mut ff_cases: Vec<Case> = vec![];
    for (i, inp) in inputs.iter().enumerate() {
        let n = if inp.reg.types.len() > 600 { 1 } else { n_random };
        for (sw, ops) in fault_free_settings(&inp.reg, mix(ctx.seed, tag("C10-ffs"), i as u64), n) {
            ff_cases.push(Case {
                reg_name: inp.name.clone(),
                reg: inp.reg.clone(),
                sw,
                ops,
                fault: None,
            });
        }
    }
    let ff_reports = runner::par_runs(ff_cases.len() as u64, ctx.workers, |i| {
        let c = &ff_cases[i as usize];
        let seed = mix(ctx.seed, tag("C10-ff-entropy"), i);
        let r = run_case(c, seed);
        let v = judge(c, &r);
        let outcome = match &r {
            Ok(r) => r.generate.short(),
            Err(p) => format!("PANIC({p})"),
        };
        let mut d = Digest::new();
        d.str(&outcome);
        if let Ok(r) = &r {
            d.str(&r.dedup.short());
            for o in &r.resolve {
                d.str(&o.short());
            }
        }
        CaseReport {
            kind: "fault_free",
            must: false,
            fired: false,
            outcome,
            digest: d.0,
            violation: v,
            case_idx: i as usize,
        }
    });
    let mut ff_outcomes: BTreeMap<String, u64> = BTreeMap::new();
    let mut log = Digest::new();
    let mut ff_distinct = BTreeSet::new();
    for rep in &ff_reports {
        let o = rep.outcome.split('(').next().unwrap_or_default().to_string()
            + if rep.outcome.starts_with("Err(") {
                rep.outcome.split('[').next().unwrap_or_default().trim_start_matches("Err")
            } else {
                ""
            };
        *ff_outcomes.entry(o).or_default() += 1;
        log.u64(rep.digest);
        let c = &ff_cases[rep.case_idx];
        let mut d = Digest::new();
        d.str(&c.reg_name);
        d.str(&format!("{:?}{:?}", c.sw, c.ops));
        ff_distinct.insert(d.0);
        if let Some((class, _)) = &rep.violation {
            if class.starts_with("harness") {
                harness_err = Some(format!("{class}: {:?}", rep.violation));
                continue;
            }
            let seed = mix(ctx.seed, tag("C10-ff-entropy"), rep.case_idx as u64);
            let (mc, detail) = minimise(c, class, seed);
            let mut v = package(&mc, class.clone(), detail.clone(), seed);
            v.unminimised_replay = Some(package(c, class.clone(), detail, seed).replay);
            if seen_keys.insert(v.key.clone()) {
                violations.push(v);
            }
        }
    }

    // ---- configuration 2: one fault per run ----
    // only bases that are fault-free themselves, under all base settings
    let bases = fault_bases(&w, ctx);
    let settings_for = |bi: usize, b: &Base| -> Vec<(Switches, Vec<Op>)> {
        // third setting: substitutes (pass-through, no declared generics) for up to two present
        // struct/enum paths plus a type-specific derive - exercises the "not generated because
        // substituted" path under faults; no recursive derives (the property's quantifier)
        let mut rng = Rng::new(mix(ctx.seed, tag("C10-base-settings"), bi as u64));
        let gen_paths: Vec<String> = b
            .reg
            .types
            .iter()
            .filter(|t| refmodel::is_generated_kind(&t.ty))
            .map(|t| refmodel::path_text(&t.ty))
            .collect();
        let mut ops3 = standard_ops();
        let nsub = 2.min(gen_paths.len());
        let chosen = rng.subset(&gen_paths, nsub);
        for (i, p) in chosen.iter().enumerate() {
            ops3.push(Op::SubInsert {
                src: p.clone(),
                tgt: format!("::subst::S{i}"),
            });
        }
        if !gen_paths.is_empty() {
            ops3.push(Op::DerivesFor {
                path: rng.pick(&gen_paths).clone(),
                items: vec!["Clone".into()],
                recursive: false,
            });
        }
        vec![
            (Switches::standard(), standard_ops()),
            (alt_switches(), bit_order_substitutes()),
            (Switches::standard(), ops3),
        ]
    };
    let mut usable: Vec<(&Base, Vec<(Switches, Vec<Op>)>)> = vec![];
    let mut excluded: Vec<String> = vec![];
    for (bi, b) in bases.iter().enumerate() {
        let sets = settings_for(bi, b);
        let mut ok = true;
        for (sw, ops) in &sets {
            let c = Case {
                reg_name: b.name.clone(),
                reg: b.reg.clone(),
                sw: sw.clone(),
                ops: ops.clone(),
                fault: None,
            };
            let r = run_case(&c, 1);
            if judge(&c, &r).is_some() {
                ok = false;
            }
        }
        if ok {
            usable.push((b, sets));
        } else {
            excluded.push(b.name.clone());
        }
    }
    let mut fault_cases: Vec<Case> = vec![];
    let mut per_base: Vec<Value> = vec![];
    let mut exhaustive_bases = 0;
    for (bi, (b, base_settings)) in usable.iter().enumerate() {
        let mut faults = all_faults(&b.reg);
        let total = faults.len();
        if !b.exhaustive {
            // seeded sample of sites for the large bases in the quick tier
            let mut rng = Rng::new(mix(ctx.seed, tag("C10-sample"), bi as u64));
            let keep = if b.reg.types.len() > 600 { 400 } else { 250 };
            if faults.len() > keep {
                rng.shuffle(&mut faults);
                faults.truncate(keep);
            }
        } else {
            exhaustive_bases += 1;
        }
        per_base.push(json!({"base": b.name, "types": b.reg.types.len(), "fault_sites_total": total, "fault_sites_run": faults.len(), "exhaustive": b.exhaustive || faults.len() == total}));
        for (k, f) in faults.into_iter().enumerate() {
            // rotate the base settings over the faults; faults in the settings themselves, and
            // (thorough tier, small bases) all faults, run under every base setting
            let all = matches!(f, Fault::NoCompactPath | Fault::NoBitsPath)
                || (ctx.tier == Tier::Thorough && b.reg.types.len() <= 300)
                || (ctx.tier == Tier::Quick && b.reg.types.len() <= 40);
            let which: Vec<usize> = if all {
                (0..base_settings.len()).collect()
            } else {
                vec![k % base_settings.len()]
            };
            for s in which {
                let mut ops = base_settings[s].1.clone();
                if s == 2 {
                    // the substituted paths are re-drawn per fault (0-3 of them): which types are
                    // "not generated because substituted" decides which fault sites turn from
                    // must into may, i.e. which otherwise unreachable emission paths get exercised
                    let mut rng = Rng::new(mix(ctx.seed, tag("C10-per-fault-subs"), (bi as u64) << 32 | k as u64));
                    let gen_paths: Vec<String> = b
                        .reg
                        .types
                        .iter()
                        .filter(|t| refmodel::is_generated_kind(&t.ty))
                        .map(|t| refmodel::path_text(&t.ty))
                        .collect();
                    ops = standard_ops();
                    let nsub = rng.usize_below(4).min(gen_paths.len());
                    for (i, p) in rng.subset(&gen_paths, nsub).iter().enumerate() {
                        ops.push(Op::SubInsert {
                            src: p.clone(),
                            tgt: format!("::subst::S{i}"),
                        });
                    }
                }
                fault_cases.push(Case {
                    reg_name: b.name.clone(),
                    reg: b.reg.clone(),
                    sw: base_settings[s].0.clone(),
                    ops,
                    fault: Some(f.clone()),
                });
            }
        }
    }
    let f_reports = runner::par_runs(fault_cases.len() as u64, ctx.workers, |i| {
        let c = &fault_cases[i as usize];
        let seed = mix(ctx.seed, tag("C10-f-entropy"), i);
        let r = run_case(c, seed);
        let v = judge(c, &r);
        let (outcome, fired) = match &r {
            Ok(r) => (
                format!("{} / dedup {}", r.generate.short(), r.dedup.short()),
                r.generate != Out::Ok
                    || r.dedup != Out::Ok
                    || r.resolve.iter().any(|o| *o != Out::Ok),
            ),
            Err(p) => (format!("PANIC({p})"), true),
        };
        let mut d = Digest::new();
        d.str(&outcome);
        if let Ok(r) = &r {
            for o in &r.resolve {
                d.str(&o.short());
            }
        }
        CaseReport {
            kind: c.fault.as_ref().unwrap().kind(),
            must: classify_must(c),
            fired,
            outcome,
            digest: d.0,
            violation: v,
            case_idx: i as usize,
        }
    });
    #[derive(Default)]
    struct KindStat {
        runs: u64,
        must: u64,
        may: u64,
        fired: u64,
        may_reported: u64,
    }
    let mut kinds: BTreeMap<&'static str, KindStat> = BTreeMap::new();
    let mut samples: Vec<Value> = vec![];
    let mut distinct_fired = BTreeSet::new();
    for rep in &f_reports {
        let k = kinds.entry(rep.kind).or_default();
        k.runs += 1;
        if rep.must {
            k.must += 1
        } else {
            k.may += 1;
            if rep.fired {
                k.may_reported += 1
            }
        }
        if rep.fired {
            k.fired += 1;
            let c = &fault_cases[rep.case_idx];
            let mut d = Digest::new();
            d.str(&c.reg_name);
            d.str(&c.fault.as_ref().unwrap().to_json().to_string());
            distinct_fired.insert(d.0);
        }
        log.u64(rep.digest);
        if let Some((class, detail)) = &rep.violation {
            if class.starts_with("harness") {
                harness_err = Some(format!("{class}: {detail}"));
                continue;
            }
            let c = &fault_cases[rep.case_idx];
            let seed = mix(ctx.seed, tag("C10-f-entropy"), rep.case_idx as u64);
            // one report per (base, fault kind, class): the same defect shows at many sites
            let group = format!("{}|{}|{}", c.reg_name, rep.kind, class);
            if seen_keys.insert(group) && violations.len() < 8 {
                let v = match shrink_fault_case(c, class, seed) {
                    Some((small, d)) => {
                        let mut v = package(&small, class.clone(), d, seed);
                        v.unminimised_replay = Some(package(c, class.clone(), detail.clone(), seed).replay);
                        v
                    }
                    None => package(c, class.clone(), detail.clone(), seed),
                };
                violations.push(v);
            }
        }
    }
    if let Some(e) = harness_err {
        eprintln!("HARNESS ERROR: {e}");
        return 2;
    }
    // samples: one per fault kind + two fault-free
    let mut seen_kind = BTreeSet::new();
    for rep in &f_reports {
        if rep.must && seen_kind.insert(rep.kind) {
            let c = &fault_cases[rep.case_idx];
            samples.push(json!({"config":"fault-injecting","base": c.reg_name, "fault": c.fault.as_ref().unwrap().to_json(), "must_be_reported": rep.must, "outcome": rep.outcome}));
        }
    }
    for rep in ff_reports.iter().take(2) {
        let c = &ff_cases[rep.case_idx];
        samples.push(json!({"config":"fault-free","registry": c.reg_name, "switches": c.sw.to_json(), "ops": c.ops.iter().map(|o| o.to_json()).collect::<Vec<_>>(), "outcome": rep.outcome}));
    }
    // reach: every documented kind must have fired at a must-site
    for k in [
        "F1_id_mismatch",
        "F2_mixed_fields",
        "F3_no_compact_path",
        "F4_no_bits_path",
        "F5_dangling_id",
    ] {
        let st = kinds.get(k);
        if st.map(|s| s.must).unwrap_or(0) == 0 {
            eprintln!("HARNESS ERROR: fault kind {k} never ran at a must-site");
            return 2;
        }
    }
    let evaluations = (ff_reports.len() + f_reports.len()) as u64;
    let wall = ctx.wall_s();
    let kinds_json: BTreeMap<&str, Value> = kinds
        .iter()
        .map(|(k, s)| {
            (
                *k,
                json!({"injected": s.runs, "at_must_sites": s.must, "at_may_sites": s.may, "fired (some API call changed its result)": s.fired, "may_sites_where_the_fault_was_reported_anyway": s.may_reported}),
            )
        })
        .collect();
    let coverage = json!({
        "evaluations": evaluations,
        "distinct_nontrivial": distinct_fired.len() + ff_distinct.len(),
        "rule": "fault-injecting configuration: one evaluation = one base registry with exactly one fault (F1 id != position per entry x {i+1,i-1,0,MAX}; F2 name flip per field of each composite/variant with >= 2 fields; F3/F4 missing compact/bits path per base containing such an entry; F5 dangling id {len, len+1+k%7, MAX} at every reference: field, variant field, type parameter, sequence/array/compact element, tuple element, bit store/order), run on a fresh thread through generate_types_mod+emission, ensure_unique_type_paths and resolve_type_path(every id); non-trivial+distinct = distinct (base, fault) whose fault fired, i.e. changed the result of at least one call. fault-free configuration: one evaluation = (registry, supported settings) through the same calls; distinct = distinct (registry, settings)",
        "samples": samples,
        "fault_free": {"cases": ff_reports.len(), "registries": inputs.len(), "distinct_cases": ff_distinct.len(), "generate_outcomes": ff_outcomes},
        "fault_injecting": {"cases": f_reports.len(), "bases_used": usable.len(), "bases_enumerated_exhaustively": exhaustive_bases, "bases_excluded_because_not_fault_free": excluded, "per_kind": kinds_json, "per_base": per_base},
        "runs_per_hour": (evaluations as f64 / wall * 3600.0).round(),
        "seeds_per_hour": (evaluations as f64 / wall * 3600.0).round(),
        "simulated_time": "none - the system under test reads no clock",
        "event_log_digest": format!("{:016x}", log.0),
        "unscheduled_draws_outside_executions": entropy::UNSCHEDULED_DRAWS.load(std::sync::atomic::Ordering::SeqCst),
        "components": report::REAL_VS_STUB,
        "exhaustive": false,
        "exhaustive_note": "every site of every documented fault kind is enumerated for each base marked exhaustive (all family bases; in the thorough tier also the polkadot slices and the full polkadot registry); the space of base registries is sampled",
    });
    report::finish(
        ctx,
        "C10",
        "fault_enumeration",
        coverage,
        vec![
            "well-formed = produced by scale-info from Rust definitions, or a retain()-closed slice of the polkadot metadata, or one of those with a named edit (path clash / uniquify)".into(),
            "must/may split by a reference walker that under-approximates the references a faithful generator has to follow (a stricter but correct implementation is never flagged)".into(),
            "fault bases have unique paths, no recursive derives, and pass the fault-free configuration".into(),
        ],
        violations,
    )
}
