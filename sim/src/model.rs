//! Serializable builder operations and switch settings, and their execution
//! against the real scale-typegen builders. Everything is kept as text (paths,
//! attributes) so that a replay file is explicit and self-contained.

use scale_typegen::typegen::error::TypeSubstitutionErrorKind;
use scale_typegen::typegen::settings::substitutes::absolute_path;
use scale_typegen::typegen::settings::AllocCratePath;
use scale_typegen::{DerivesRegistry, TypeGeneratorSettings, TypeSubstitutes};
use serde_json::{json, Value};

#[derive(Clone, Debug, PartialEq, Eq, PartialOrd, Ord)]
pub enum Op {
    DerivesAll(Vec<String>),
    AttrsAll(Vec<String>),
    /// `TypeGeneratorSettings::add_derives_for_all` (the convenience method)
    SettingsDerivesAll(Vec<String>),
    DerivesFor {
        path: String,
        items: Vec<String>,
        recursive: bool,
    },
    AttrsFor {
        path: String,
        items: Vec<String>,
        recursive: bool,
    },
    SubInsert {
        src: String,
        tgt: String,
    },
    SubInsertIfAbsent {
        src: String,
        tgt: String,
    },
    SubExtend(Vec<(String, String)>),
    /// `TypeGeneratorSettings::substitute` (panics on invalid input by contract,
    /// only generated with valid arguments)
    SettingsSubstitute {
        src: String,
        tgt: String,
    },
}

impl Op {
    pub fn to_json(&self) -> Value {
        match self {
            Op::DerivesAll(v) => json!({"op":"add_derives_for_all","derives":v}),
            Op::AttrsAll(v) => json!({"op":"add_attributes_for_all","attributes":v}),
            Op::SettingsDerivesAll(v) => json!({"op":"settings.add_derives_for_all","derives":v}),
            Op::DerivesFor {
                path,
                items,
                recursive,
            } => json!({"op":"add_derives_for","path":path,"derives":items,"recursive":recursive}),
            Op::AttrsFor {
                path,
                items,
                recursive,
            } => {
                json!({"op":"add_attributes_for","path":path,"attributes":items,"recursive":recursive})
            }
            Op::SubInsert { src, tgt } => json!({"op":"insert","src":src,"tgt":tgt}),
            Op::SubInsertIfAbsent { src, tgt } => {
                json!({"op":"insert_if_not_exists","src":src,"tgt":tgt})
            }
            Op::SubExtend(v) => {
                json!({"op":"extend","elems": v.iter().map(|(s,t)| json!([s,t])).collect::<Vec<_>>()})
            }
            Op::SettingsSubstitute { src, tgt } => {
                json!({"op":"settings.substitute","src":src,"tgt":tgt})
            }
        }
    }

    pub fn from_json(v: &Value) -> Result<Op, String> {
        let s = |k: &str| -> Result<String, String> {
            v.get(k)
                .and_then(|x| x.as_str())
                .map(|x| x.to_string())
                .ok_or_else(|| format!("op: missing string field {k}"))
        };
        let l = |k: &str| -> Result<Vec<String>, String> {
            v.get(k)
                .and_then(|x| x.as_array())
                .map(|a| {
                    a.iter()
                        .map(|e| e.as_str().unwrap_or_default().to_string())
                        .collect()
                })
                .ok_or_else(|| format!("op: missing list field {k}"))
        };
        let b = |k: &str| v.get(k).and_then(|x| x.as_bool()).unwrap_or(false);
        match s("op")?.as_str() {
            "add_derives_for_all" => Ok(Op::DerivesAll(l("derives")?)),
            "add_attributes_for_all" => Ok(Op::AttrsAll(l("attributes")?)),
            "settings.add_derives_for_all" => Ok(Op::SettingsDerivesAll(l("derives")?)),
            "add_derives_for" => Ok(Op::DerivesFor {
                path: s("path")?,
                items: l("derives")?,
                recursive: b("recursive"),
            }),
            "add_attributes_for" => Ok(Op::AttrsFor {
                path: s("path")?,
                items: l("attributes")?,
                recursive: b("recursive"),
            }),
            "insert" => Ok(Op::SubInsert {
                src: s("src")?,
                tgt: s("tgt")?,
            }),
            "insert_if_not_exists" => Ok(Op::SubInsertIfAbsent {
                src: s("src")?,
                tgt: s("tgt")?,
            }),
            "settings.substitute" => Ok(Op::SettingsSubstitute {
                src: s("src")?,
                tgt: s("tgt")?,
            }),
            "extend" => {
                let a = v
                    .get("elems")
                    .and_then(|x| x.as_array())
                    .ok_or("extend: missing elems")?;
                let mut out = vec![];
                for e in a {
                    let p = e.as_array().ok_or("extend: elem not a pair")?;
                    out.push((
                        p[0].as_str().unwrap_or_default().to_string(),
                        p[1].as_str().unwrap_or_default().to_string(),
                    ));
                }
                Ok(Op::SubExtend(out))
            }
            other => Err(format!("unknown op {other}")),
        }
    }
}

/// Text -> syn::Path. `""` is the zero-segment path, `"::"` the zero-segment
/// path with a leading colon; `a::Foo(A, B)` gives parenthesised arguments.
pub fn parse_path(s: &str) -> syn::Path {
    let t = s.trim();
    if t.is_empty() {
        return syn::Path {
            leading_colon: None,
            segments: Default::default(),
        };
    }
    if t == "::" {
        return syn::Path {
            leading_colon: Some(Default::default()),
            segments: Default::default(),
        };
    }
    if t.ends_with(')') || t.contains(") ->") {
        let tb: syn::TraitBound =
            syn::parse_str(t).unwrap_or_else(|e| panic!("harness: bad paren path {t}: {e}"));
        return tb.path;
    }
    syn::parse_str::<syn::Path>(t).unwrap_or_else(|e| panic!("harness: bad path {t}: {e}"))
}

pub fn parse_type_path(s: &str) -> syn::TypePath {
    syn::TypePath {
        qself: None,
        path: parse_path(s),
    }
}

pub fn parse_attr(s: &str) -> syn::Attribute {
    use syn::parse::Parser;
    let mut v = syn::Attribute::parse_outer
        .parse_str(s)
        .unwrap_or_else(|e| panic!("harness: bad attribute {s}: {e}"));
    assert_eq!(v.len(), 1, "harness: exactly one attribute expected in {s}");
    v.remove(0)
}

pub fn tokens_of(x: &impl quote::ToTokens) -> String {
    x.to_token_stream().to_string()
}

/// Remove the whitespace *between tokens*; blanks inside string literals are content and stay
/// (`#[doc = "a b"]` and `#[doc = "ab"]` are different attributes).
pub fn nospace(s: &str) -> String {
    let mut out = String::with_capacity(s.len());
    let mut in_str = false;
    let mut escaped = false;
    for c in s.chars() {
        if in_str {
            out.push(c);
            if escaped {
                escaped = false;
            } else if c == '\\' {
                escaped = true;
            } else if c == '"' {
                in_str = false;
            }
        } else if c == '"' {
            in_str = true;
            out.push(c);
        } else if !c.is_whitespace() {
            out.push(c);
        }
    }
    out
}

#[derive(Clone, Copy, Debug, PartialEq, Eq, PartialOrd, Ord)]
pub enum SubErr {
    ExpectedAbsolutePath,
    EmptySubstitutePath,
    ExpectedAngleBracketGenerics,
    InvalidFromType,
    InvalidToType,
    NoMatchingFromType,
    Other,
}

impl SubErr {
    pub fn of(k: &TypeSubstitutionErrorKind) -> SubErr {
        match k {
            TypeSubstitutionErrorKind::ExpectedAbsolutePath => SubErr::ExpectedAbsolutePath,
            TypeSubstitutionErrorKind::EmptySubstitutePath => SubErr::EmptySubstitutePath,
            TypeSubstitutionErrorKind::ExpectedAngleBracketGenerics => {
                SubErr::ExpectedAngleBracketGenerics
            }
            TypeSubstitutionErrorKind::InvalidFromType => SubErr::InvalidFromType,
            TypeSubstitutionErrorKind::InvalidToType => SubErr::InvalidToType,
            TypeSubstitutionErrorKind::NoMatchingFromType => SubErr::NoMatchingFromType,
            _ => SubErr::Other,
        }
    }
    pub fn name(&self) -> &'static str {
        match self {
            SubErr::ExpectedAbsolutePath => "ExpectedAbsolutePath",
            SubErr::EmptySubstitutePath => "EmptySubstitutePath",
            SubErr::ExpectedAngleBracketGenerics => "ExpectedAngleBracketGenerics",
            SubErr::InvalidFromType => "InvalidFromType",
            SubErr::InvalidToType => "InvalidToType",
            SubErr::NoMatchingFromType => "NoMatchingFromType",
            SubErr::Other => "Other",
        }
    }
}

/// The real builders under test.
pub struct Builders {
    pub derives: DerivesRegistry,
    pub subs: TypeSubstitutes,
}

impl Default for Builders {
    fn default() -> Self {
        Self::new()
    }
}

impl Builders {
    pub fn new() -> Self {
        Builders {
            derives: DerivesRegistry::new(),
            subs: TypeSubstitutes::new(),
        }
    }

    /// Apply one operation through the public API. `Err` = the call was rejected.
    pub fn apply(&mut self, op: &Op) -> Result<(), SubErr> {
        match op {
            Op::DerivesAll(v) => {
                self.derives
                    .add_derives_for_all(v.iter().map(|s| parse_path(s)));
                Ok(())
            }
            Op::AttrsAll(v) => {
                self.derives
                    .add_attributes_for_all(v.iter().map(|s| parse_attr(s)));
                Ok(())
            }
            Op::SettingsDerivesAll(v) => {
                // goes through TypeGeneratorSettings, which owns a DerivesRegistry
                let mut s = TypeGeneratorSettings::new();
                s.derives = std::mem::take(&mut self.derives);
                let s = s.add_derives_for_all(v.iter().map(|s| parse_path(s)));
                self.derives = s.derives;
                Ok(())
            }
            Op::DerivesFor {
                path,
                items,
                recursive,
            } => {
                self.derives.add_derives_for(
                    parse_type_path(path),
                    items.iter().map(|s| parse_path(s)),
                    *recursive,
                );
                Ok(())
            }
            Op::AttrsFor {
                path,
                items,
                recursive,
            } => {
                self.derives.add_attributes_for(
                    parse_type_path(path),
                    items.iter().map(|s| parse_attr(s)),
                    *recursive,
                );
                Ok(())
            }
            Op::SubInsert { src, tgt } => {
                let t = absolute_path(parse_path(tgt)).map_err(|e| SubErr::of(&e.kind))?;
                self.subs
                    .insert(parse_path(src), t)
                    .map_err(|e| SubErr::of(&e.kind))
            }
            Op::SubInsertIfAbsent { src, tgt } => {
                let t = absolute_path(parse_path(tgt)).map_err(|e| SubErr::of(&e.kind))?;
                self.subs
                    .insert_if_not_exists(parse_path(src), t)
                    .map_err(|e| SubErr::of(&e.kind))
            }
            Op::SubExtend(v) => {
                // the conversion to AbsolutePath is the caller's step; a relative
                // target is rejected there, before extend() sees anything
                let mut elems = vec![];
                for (s, t) in v {
                    let t = absolute_path(parse_path(t)).map_err(|e| SubErr::of(&e.kind))?;
                    elems.push((parse_path(s), t));
                }
                self.subs.extend(elems).map_err(|e| SubErr::of(&e.kind))
            }
            Op::SettingsSubstitute { src, tgt } => {
                let mut s = TypeGeneratorSettings::new();
                s.substitutes = std::mem::take(&mut self.subs);
                let s = s.substitute(parse_path(src), parse_path(tgt));
                self.subs = s.substitutes;
                Ok(())
            }
        }
    }
}

#[derive(Clone, Debug, PartialEq, Eq)]
pub struct Switches {
    pub root: String,
    pub alloc: Option<String>,
    pub docs: bool,
    pub codec_attrs: bool,
    pub compact: Option<String>,
    pub bits: Option<String>,
    pub compact_as: Option<String>,
}

impl Switches {
    pub fn standard() -> Self {
        Switches {
            root: "root".into(),
            alloc: None,
            docs: true,
            codec_attrs: true,
            compact: Some("::subxt_path::ext::codec::Compact".into()),
            bits: Some("::subxt_path::utils::bits::DecodedBits".into()),
            compact_as: Some("::subxt_path::ext::codec::CompactAs".into()),
        }
    }
    pub fn to_json(&self) -> Value {
        json!({"root": self.root, "alloc": self.alloc, "docs": self.docs, "codec_attrs": self.codec_attrs,
               "compact": self.compact, "bits": self.bits, "compact_as": self.compact_as})
    }
    pub fn from_json(v: &Value) -> Result<Self, String> {
        let os = |k: &str| v.get(k).and_then(|x| x.as_str()).map(|s| s.to_string());
        Ok(Switches {
            root: os("root").ok_or("switches.root")?,
            alloc: os("alloc"),
            docs: v.get("docs").and_then(|x| x.as_bool()).unwrap_or(true),
            codec_attrs: v
                .get("codec_attrs")
                .and_then(|x| x.as_bool())
                .unwrap_or(false),
            compact: os("compact"),
            bits: os("bits"),
            compact_as: os("compact_as"),
        })
    }
    pub fn settings(&self, b: Builders) -> TypeGeneratorSettings {
        TypeGeneratorSettings {
            types_mod_ident: syn::parse_str(&self.root).expect("harness: root ident"),
            should_gen_docs: self.docs,
            derives: b.derives,
            substitutes: b.subs,
            decoded_bits_type_path: self.bits.as_deref().map(parse_path),
            compact_as_type_path: self.compact_as.as_deref().map(parse_path),
            compact_type_path: self.compact.as_deref().map(parse_path),
            insert_codec_attributes: self.codec_attrs,
            alloc_crate_path: match &self.alloc {
                None => AllocCratePath::Std,
                Some(p) => AllocCratePath::Custom(parse_path(p)),
            },
        }
    }
}

/// The bit-order marker substitutes every real configuration carries.
pub fn bit_order_substitutes() -> Vec<Op> {
    vec![
        Op::SubInsert {
            src: "bitvec::order::Lsb0".into(),
            tgt: "::subxt_path::utils::bits::Lsb0".into(),
        },
        Op::SubInsert {
            src: "bitvec::order::Msb0".into(),
            tgt: "::subxt_path::utils::bits::Msb0".into(),
        },
    ]
}
