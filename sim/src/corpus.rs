//! Workload registries ("well-formed" in the sense of DESIGN.md section 3):
//! everything here is produced by scale-info 2.11 from Rust type definitions,
//! is a `retain()`-closed slice of the polkadot metadata shipped in
//! /repo/artifacts, or is one of those with an explicit, named edit ("derived").
#![allow(dead_code)]

use parity_scale_codec::{Compact, Decode};
use scale_info::{MetaType, PortableRegistry, Registry, TypeInfo};
use std::collections::BTreeMap;

pub struct Entry {
    pub name: String,
    pub reg: PortableRegistry,
}

fn reg_of(metas: Vec<MetaType>) -> PortableRegistry {
    let mut r = Registry::new();
    for m in metas {
        r.register_type(&m);
    }
    r.into()
}

macro_rules! metas {
    ($($t:ty),* $(,)?) => { vec![ $( MetaType::new::<$t>() ),* ] };
}

// ---------------------------------------------------------------------------
// families
// ---------------------------------------------------------------------------

pub mod prims {
    use super::*;
    #[derive(TypeInfo)]
    pub struct AllPrims {
        pub a: bool,
        pub b: char,
        pub c: String,
        pub d: u8,
        pub e: u16,
        pub f: u32,
        pub g: u64,
        pub h: u128,
        pub i: i8,
        pub j: i16,
        pub k: i32,
        pub l: i64,
        pub m: i128,
        pub n: &'static str,
    }
    #[derive(TypeInfo)]
    pub struct Unit;
    #[derive(TypeInfo)]
    pub struct Tup(pub u8, pub String, pub bool);
    #[derive(TypeInfo)]
    pub struct Outer {
        pub inner: AllPrims,
        pub unit: Unit,
        pub tup: Tup,
    }
    #[derive(TypeInfo)]
    pub struct EmptyNamed {}
    pub fn metas() -> Vec<MetaType> {
        metas![Outer, EmptyNamed]
    }
}

pub mod enums {
    use super::*;
    /// An enum with docs
    /// over two lines.
    #[derive(TypeInfo)]
    pub enum E {
        /// unit variant
        A,
        /// tuple variant
        B(u8, u16),
        /// named variant
        C { x: u32, y: String },
        #[codec(index = 17)]
        D(bool),
        #[codec(index = 200)]
        F,
    }
    #[derive(TypeInfo)]
    pub enum Empty {}
    #[derive(TypeInfo)]
    pub enum Single {
        Only { v: E },
    }
    #[derive(TypeInfo)]
    pub struct Holder {
        pub e: E,
        pub s: Single,
        pub o: Option<E>,
        pub r: Result<E, Single>,
    }
    pub fn metas() -> Vec<MetaType> {
        metas![Holder, Empty]
    }
}

pub mod generics1 {
    use super::*;
    #[derive(TypeInfo)]
    pub struct Foo<T> {
        pub a: T,
        pub b: Vec<T>,
        pub c: Option<T>,
        pub d: u32,
    }
    #[derive(TypeInfo)]
    pub struct Bar {
        pub x: u8,
    }
    #[derive(TypeInfo)]
    pub enum GenEnum<T, U> {
        L(T),
        R { u: U, t: T },
        N,
    }
    #[derive(TypeInfo)]
    pub struct User {
        pub f1: Foo<u8>,
        pub f2: Foo<u64>,
        pub f3: Foo<Bar>,
        pub g1: GenEnum<u8, bool>,
        pub g2: GenEnum<Bar, Foo<u16>>,
    }
    pub fn metas() -> Vec<MetaType> {
        metas![User]
    }
}

pub mod generics4 {
    use super::*;
    use std::marker::PhantomData;
    #[derive(TypeInfo)]
    pub struct Four<T, U, V, W> {
        pub a: T,
        pub b: U,
        pub c: V,
        pub d: W,
    }
    #[derive(TypeInfo)]
    pub struct FourT<T, U, V, W>(pub T, pub U, pub V, pub W);
    #[derive(TypeInfo)]
    pub struct Unused<T, U> {
        pub a: u8,
        pub _p: PhantomData<(T, U)>,
    }
    #[derive(TypeInfo)]
    pub struct UnusedT<T>(pub u16, pub PhantomData<T>);
    #[derive(TypeInfo)]
    pub struct UnusedUnit<T>(pub PhantomData<T>);
    #[derive(TypeInfo)]
    pub enum UnusedEnum<T, U> {
        A(T),
        B,
        #[allow(non_camel_case_types)]
        __P(PhantomData<U>),
    }
    #[derive(TypeInfo)]
    pub struct Nested<T> {
        pub a: Vec<Option<T>>,
        pub b: (T, u8),
        pub c: [T; 3],
    }
    #[derive(TypeInfo)]
    pub struct User {
        pub p: Four<u32, u32, u64, u128>,
        pub q: Four<u8, u8, u8, u8>,
        pub r: FourT<bool, u8, u16, String>,
        pub s: Unused<u8, u16>,
        pub t: UnusedT<bool>,
        pub u: UnusedUnit<u64>,
        pub v: UnusedEnum<u8, u16>,
        pub w: Nested<u32>,
        pub x: Nested<Four<u8, u16, u32, u64>>,
    }
    pub fn metas() -> Vec<MetaType> {
        metas![User]
    }
}

pub mod boxes {
    use super::*;
    use std::borrow::Cow;
    #[derive(TypeInfo)]
    pub struct S {
        pub a: Box<u32>,
        pub b: Box<Inner>,
        pub c: Option<Box<Inner>>,
        pub d: Vec<Box<u8>>,
    }
    #[derive(TypeInfo)]
    pub struct Inner {
        pub v: u8,
    }
    #[derive(TypeInfo)]
    pub enum E {
        A(Box<bool>),
        B { a: Box<Inner> },
        C(Box<S>),
    }
    #[derive(TypeInfo)]
    pub struct Cows {
        pub a: Cow<'static, str>,
        pub b: Cow<'static, [u8]>,
        pub c: Cow<'static, Inner>,
        pub d: Vec<Cow<'static, str>>,
    }
    #[derive(TypeInfo)]
    pub struct GenBox<T> {
        pub a: Box<T>,
        pub b: T,
    }
    #[derive(TypeInfo)]
    pub struct User {
        pub e: E,
        pub c: Cows,
        // a single instantiation only: a parameter directly under Box defeats the
        // generic unification of same-path types (documented limitation, see C04/C05)
        pub g: GenBox<u32>,
    }
    impl Clone for Inner {
        fn clone(&self) -> Self {
            Inner { v: self.v }
        }
    }
    pub fn metas() -> Vec<MetaType> {
        metas![User]
    }
}

pub mod collections {
    use super::*;
    use std::collections::{BTreeMap, BTreeSet, BinaryHeap, VecDeque};
    use std::num::*;
    use std::ops::{Range, RangeInclusive};
    #[derive(TypeInfo)]
    pub struct K {
        pub k: u32,
    }
    #[derive(TypeInfo)]
    pub struct S {
        pub a: Option<u8>,
        pub b: Result<u8, String>,
        pub c: BTreeMap<u32, K>,
        pub d: BTreeSet<u64>,
        pub e: BinaryHeap<u16>,
        pub f: VecDeque<K>,
        pub g: Range<u32>,
        pub h: RangeInclusive<u8>,
        pub i: NonZeroU32,
        pub j: NonZeroI64,
        pub k: NonZeroU8,
        pub l: NonZeroU128,
        pub m: Option<Option<K>>,
        pub n: Result<Option<K>, Vec<K>>,
        pub o: BTreeMap<String, Vec<(u8, K)>>,
        pub p: NonZeroI8,
        pub q: NonZeroU16,
        pub r: NonZeroI16,
        pub s: NonZeroI32,
        pub t: NonZeroU64,
        pub u: NonZeroI128,
    }
    pub fn metas() -> Vec<MetaType> {
        metas![S]
    }
}

pub mod arrays_tuples {
    use super::*;
    #[derive(TypeInfo)]
    pub struct P {
        pub v: u8,
    }
    #[derive(TypeInfo)]
    pub struct S {
        pub a: [u8; 32],
        pub b: [[u8; 4]; 2],
        pub c: (u8,),
        pub d: (u8, u16),
        pub e: ((u8, u16), [u32; 3]),
        pub f: Vec<(u8, Vec<u8>)>,
        pub g: [P; 2],
        pub h: (P, (P, (P,))),
        pub i: (),
        pub j: Vec<Vec<Vec<P>>>,
        pub k: [(u8, P); 5],
    }
    #[derive(TypeInfo)]
    pub struct T(pub (u8, u8), pub [u16; 2], pub ());
    pub fn metas() -> Vec<MetaType> {
        metas![S, T]
    }
}

pub mod compact {
    use super::*;
    #[derive(TypeInfo)]
    pub struct S {
        #[codec(compact)]
        pub a: u32,
        pub b: Compact<u64>,
        pub c: Vec<Compact<u128>>,
        pub d: Option<Compact<u16>>,
        pub e: (Compact<u8>, u8),
        pub f: [Compact<u32>; 2],
    }
    #[derive(TypeInfo)]
    pub struct TupleStruct(#[codec(compact)] pub u32, pub Compact<u8>);
    #[derive(TypeInfo)]
    pub enum E {
        A {
            #[codec(compact)]
            a: u32,
        },
        B(#[codec(compact)] u64),
        C(Compact<u128>),
    }
    #[derive(TypeInfo)]
    pub struct G<T> {
        pub a: T,
        pub b: Vec<T>,
    }
    #[derive(TypeInfo)]
    pub struct User {
        pub s: S,
        pub t: TupleStruct,
        pub e: E,
        pub g: G<Compact<u32>>,
        pub h: G<u32>,
    }
    pub fn metas() -> Vec<MetaType> {
        metas![User]
    }
}

pub mod bits {
    use super::*;
    use bitvec::{
        order::{Lsb0, Msb0},
        vec::BitVec,
    };
    #[derive(TypeInfo)]
    pub struct S {
        pub lsb: BitVec<u8, Lsb0>,
        pub msb: BitVec<u16, Msb0>,
        pub w32: BitVec<u32, Lsb0>,
        pub w64: BitVec<u64, Msb0>,
        pub nested: Vec<BitVec<u8, Msb0>>,
        pub opt: Option<BitVec<u8, Lsb0>>,
    }
    #[derive(TypeInfo)]
    pub enum E {
        A(BitVec<u8, Lsb0>),
        B { b: BitVec<u16, Lsb0> },
    }
    pub fn metas() -> Vec<MetaType> {
        metas![S, E]
    }
}

pub mod recursion {
    use super::*;
    #[derive(TypeInfo)]
    pub struct List {
        pub v: u8,
        pub next: Option<Box<List>>,
    }
    #[derive(TypeInfo)]
    pub struct A {
        pub b: Vec<B>,
    }
    #[derive(TypeInfo)]
    pub struct B {
        pub a: Option<Box<A>>,
        pub leaf: Leaf,
    }
    #[derive(TypeInfo)]
    pub struct Leaf(pub u16);
    #[derive(TypeInfo)]
    pub enum Tree<T> {
        Leaf(T),
        Node(Box<Tree<T>>, Box<Tree<T>>),
        Many(Vec<Tree<T>>),
    }
    #[derive(TypeInfo)]
    pub struct User {
        pub l: List,
        pub a: A,
        pub t: Tree<u8>,
        pub u: Tree<Leaf>,
    }
    pub fn metas() -> Vec<MetaType> {
        metas![User]
    }
}

pub mod modules {
    use super::*;
    pub mod a {
        use super::*;
        #[derive(TypeInfo)]
        pub struct Top {
            pub m: b::Mid,
            pub d: b::c::Deep,
        }
        pub mod b {
            use super::*;
            #[derive(TypeInfo)]
            pub struct Mid {
                pub d: c::Deep,
                pub s: super::super::Sibling,
            }
            pub mod c {
                use super::*;
                #[derive(TypeInfo)]
                pub struct Deep {
                    pub v: u8,
                }
                /// same ident as a type two levels up
                #[derive(TypeInfo)]
                pub struct Sibling {
                    pub w: u16,
                }
            }
        }
    }
    #[derive(TypeInfo)]
    pub struct Sibling {
        pub other: a::b::c::Sibling,
    }
    pub fn metas() -> Vec<MetaType> {
        metas![a::Top]
    }
}

pub mod docs {
    use super::*;
    /// First line.
    ///
    /// Third line with "quotes" and \ backslash.
    #[derive(TypeInfo)]
    pub struct Documented {
        /// field docs are not in the output
        pub a: u8,
    }
    /// Enum docs
    #[derive(TypeInfo)]
    pub enum DocEnum {
        /// Variant docs line 1
        /// Variant docs line 2
        A,
        #[doc = " raw doc attr "]
        B(u8),
        C,
    }
    pub fn metas() -> Vec<MetaType> {
        metas![Documented, DocEnum]
    }
}

pub mod assoc {
    use super::*;
    pub trait Config {
        type Inner: TypeInfo + 'static;
        type Other: TypeInfo + 'static;
    }
    pub struct CA;
    pub struct CB;
    pub struct CC;
    impl Config for CA {
        type Inner = ();
        type Other = u8;
    }
    impl Config for CB {
        type Inner = u32;
        type Other = u8;
    }
    impl Config for CC {
        type Inner = u32;
        type Other = String;
    }
    #[derive(TypeInfo)]
    #[scale_info(skip_type_params(T))]
    pub struct X<T: Config> {
        pub inner: T::Inner,
    }
    #[derive(TypeInfo)]
    #[scale_info(skip_type_params(T))]
    pub enum Y<T: Config> {
        I(T::Inner),
        O { o: T::Other },
    }
    #[derive(TypeInfo)]
    #[scale_info(skip_type_params(Hash))]
    pub struct Header<Hash, AccountId> {
        pub id: AccountId,
        pub hash: Hash,
    }
    pub fn metas_dup() -> Vec<MetaType> {
        metas![
            X<CA>,
            X<CB>,
            X<CC>,
            Y<CA>,
            Y<CB>,
            Y<CC>,
            Header<String, u32>,
            Header<u8, u32>,
            Header<u16, u32>
        ]
    }
    pub fn metas_one() -> Vec<MetaType> {
        metas![X<CB>, Y<CC>, Header<u8, u32>]
    }
}

pub mod wrappers {
    use super::*;
    #[derive(TypeInfo)]
    pub struct W8(pub u8);
    #[derive(TypeInfo)]
    pub struct W128 {
        pub v: u128,
    }
    #[derive(TypeInfo)]
    pub struct WI32(pub i32);
    #[derive(TypeInfo)]
    pub struct WBool(pub bool);
    #[derive(TypeInfo)]
    pub struct WW(pub W8);
    #[derive(TypeInfo)]
    pub struct W2(pub u8, pub u8);
    #[derive(TypeInfo)]
    pub struct WG<T>(pub T);
    #[derive(TypeInfo)]
    pub struct User {
        pub a: W8,
        pub b: W128,
        pub c: WI32,
        pub d: WBool,
        pub e: WW,
        pub f: W2,
        pub g: WG<u64>,
        #[codec(compact)]
        pub h: W8c,
    }
    #[derive(TypeInfo, parity_scale_codec::Encode, parity_scale_codec::Decode, Clone, Copy)]
    pub struct W8c(pub u8);
    impl parity_scale_codec::CompactAs for W8c {
        type As = u8;
        fn encode_as(&self) -> &u8 {
            &self.0
        }
        fn decode_from(x: u8) -> Result<Self, parity_scale_codec::Error> {
            Ok(W8c(x))
        }
    }
    impl From<Compact<W8c>> for W8c {
        fn from(x: Compact<W8c>) -> Self {
            x.0
        }
    }
    pub fn metas() -> Vec<MetaType> {
        metas![User]
    }
}

pub mod calls {
    use super::*;
    #[derive(TypeInfo)]
    pub struct AccountId(pub [u8; 32]);
    #[derive(TypeInfo)]
    pub enum MultiAddress<A, I> {
        Id(A),
        Index(#[codec(compact)] I),
        Raw(Vec<u8>),
        Address32([u8; 32]),
    }
    #[derive(TypeInfo)]
    pub enum Call {
        /// Transfer some balance.
        #[codec(index = 0)]
        transfer {
            dest: MultiAddress<AccountId, ()>,
            #[codec(compact)]
            value: u128,
        },
        #[codec(index = 3)]
        batch { calls: Vec<Call> },
        #[codec(index = 4)]
        remark(Vec<u8>),
        #[codec(index = 5)]
        set_code { code: Vec<u8>, check: bool },
        #[codec(index = 9)]
        nothing,
        #[codec(index = 10)]
        boxed(Box<Call>),
    }
    #[derive(TypeInfo)]
    pub enum Event {
        Transferred { from: AccountId, to: AccountId, amount: u128 },
        Remarked(AccountId, [u8; 32]),
    }
    #[derive(TypeInfo)]
    pub enum Error {
        TooLow,
        TooHigh,
        Other(u8),
    }
    #[derive(TypeInfo)]
    pub struct Extrinsic<C, S> {
        pub call: C,
        pub sig: Option<S>,
    }
    pub fn metas() -> Vec<MetaType> {
        metas![Extrinsic<Call, [u8; 64]>, Event, Error]
    }
}

pub mod deep {
    use super::*;
    #[derive(TypeInfo)]
    pub struct W<T>(pub T);
    #[derive(TypeInfo)]
    pub struct P<A, B> {
        pub a: A,
        pub b: B,
    }
    #[derive(TypeInfo)]
    pub struct S {
        pub a: Option<Vec<Option<Box<W<u8>>>>>,
        pub b: W<W<W<u8>>>,
        pub c: P<W<u8>, P<u16, W<P<u8, u8>>>>,
        pub d: Vec<(W<u32>, Option<P<u8, Vec<W<u8>>>>)>,
    }
    pub fn metas() -> Vec<MetaType> {
        metas![S]
    }
}

/// Module and type names that differ only by trailing digits (`v1` next to `v10`,
/// `Foo` next to `Foo1`): orderings of joined versus segment-wise paths disagree here.
pub mod numbered {
    use super::*;
    macro_rules! versioned {
        ($m:ident, $t:ty) => {
            pub mod $m {
                use super::*;
                #[derive(TypeInfo)]
                pub struct Event {
                    pub v: $t,
                }
                #[derive(TypeInfo)]
                pub struct Foo1 {
                    pub w: ($t, u8),
                }
                pub mod inner {
                    use super::*;
                    #[derive(TypeInfo)]
                    pub struct Foo {
                        pub x: Vec<$t>,
                    }
                }
            }
        };
    }
    versioned!(v1, u8);
    versioned!(v10, u16);
    versioned!(v11, u32);
    versioned!(v12, u64);
    versioned!(v2, bool);
    #[derive(TypeInfo)]
    pub struct Root {
        pub a: v1::Event,
        pub b: v10::Event,
        pub c: v11::Event,
        pub d: v12::Event,
        pub e: v2::Event,
        pub f: (v1::Foo1, v10::Foo1, v11::Foo1, v12::Foo1, v2::Foo1),
        pub g: (v1::inner::Foo, v10::inner::Foo, v11::inner::Foo, v12::inner::Foo, v2::inner::Foo),
    }
    pub fn metas() -> Vec<MetaType> {
        metas![Root]
    }
}

/// Every named type below `Root` is reachable through exactly one kind of edge,
/// so that dropping one arm of a graph traversal is observable.
pub mod reach {
    use super::*;
    use std::collections::BTreeMap;
    use std::marker::PhantomData;
    #[derive(TypeInfo)]
    pub struct ViaTuple {
        pub v: u8,
    }
    #[derive(TypeInfo)]
    pub struct ViaArray {
        pub v: u8,
    }
    #[derive(TypeInfo)]
    pub struct ViaSeq {
        pub v: u8,
    }
    #[derive(TypeInfo, parity_scale_codec::Encode, parity_scale_codec::Decode, Clone, Copy)]
    pub struct ViaCompact(pub u32);
    impl parity_scale_codec::CompactAs for ViaCompact {
        type As = u32;
        fn encode_as(&self) -> &u32 {
            &self.0
        }
        fn decode_from(x: u32) -> Result<Self, parity_scale_codec::Error> {
            Ok(ViaCompact(x))
        }
    }
    impl From<Compact<ViaCompact>> for ViaCompact {
        fn from(x: Compact<ViaCompact>) -> Self {
            x.0
        }
    }
    #[derive(TypeInfo)]
    pub struct ViaVariantNamed {
        pub v: u8,
    }
    #[derive(TypeInfo)]
    pub struct ViaVariantUnnamed {
        pub v: u8,
    }
    #[derive(TypeInfo, PartialEq, Eq, PartialOrd, Ord)]
    pub struct ViaMapKey {
        pub v: u8,
    }
    #[derive(TypeInfo)]
    pub struct ViaMapVal {
        pub v: u8,
    }
    #[derive(TypeInfo)]
    pub struct ViaOption {
        pub v: u8,
    }
    #[derive(TypeInfo)]
    pub struct ViaResultErr {
        pub v: u8,
    }
    #[derive(TypeInfo)]
    pub struct ViaBox {
        pub v: u8,
    }
    #[derive(TypeInfo)]
    pub struct ViaNested {
        pub v: u8,
    }
    #[derive(TypeInfo)]
    pub struct ViaGenericField {
        pub v: u8,
    }
    /// reachable from Root only as a type parameter that no field uses
    #[derive(TypeInfo)]
    pub struct ViaParamOnly {
        pub v: u8,
    }
    #[derive(TypeInfo)]
    pub struct Wrapper<T> {
        pub inner: T,
    }
    #[derive(TypeInfo)]
    pub struct Marker<T> {
        pub n: u8,
        pub _p: PhantomData<T>,
    }
    #[derive(TypeInfo)]
    pub enum E {
        N { f: ViaVariantNamed },
        U(ViaVariantUnnamed),
        Nothing,
    }
    #[derive(TypeInfo)]
    pub struct Second {
        pub via: Wrapper<ViaGenericField>,
    }
    #[derive(TypeInfo)]
    pub struct Root {
        pub a: (u8, ViaTuple),
        pub b: [ViaArray; 2],
        pub c: Vec<ViaSeq>,
        #[codec(compact)]
        pub d: ViaCompact,
        pub e: E,
        pub f: BTreeMap<ViaMapKey, ViaMapVal>,
        pub g: Option<ViaOption>,
        pub h: Result<u8, ViaResultErr>,
        pub i: Box<ViaBox>,
        pub j: Vec<[(u8, Option<ViaNested>); 2]>,
        pub k: Second,
        pub l: Marker<ViaParamOnly>,
    }
    /// not reachable from Root at all
    #[derive(TypeInfo)]
    pub struct Island {
        pub lonely: Unrelated,
    }
    #[derive(TypeInfo)]
    pub struct Unrelated {
        pub v: u8,
    }
    pub fn metas() -> Vec<MetaType> {
        metas![Root, Island]
    }
}

pub mod awkward_ok {
    use super::*;
    /// A user type that merely shares its identifier with a prelude type other than Cow.
    #[derive(TypeInfo)]
    pub struct Option2 {
        pub v: u8,
    }
    #[derive(TypeInfo)]
    #[allow(non_camel_case_types)]
    pub struct lower_case_name {
        #[allow(non_snake_case)]
        pub CamelField: u8,
    }
    #[derive(TypeInfo)]
    pub struct Vec {
        pub v: std::vec::Vec<u8>,
    }
    #[derive(TypeInfo)]
    pub struct String(pub std::string::String);
    #[derive(TypeInfo)]
    pub struct Holder {
        pub a: Option2,
        pub b: lower_case_name,
        pub c: Vec,
        pub d: String,
    }
    pub fn metas() -> std::vec::Vec<MetaType> {
        metas![Holder]
    }
}

/// Shapes that are legal scale-info output and that the pinned tree was found to
/// mishandle (DESIGN.md section 5); kept as separate corpus entries so that each
/// finding is identified by its own input.
pub mod awkward_duration {
    use super::*;
    #[derive(TypeInfo)]
    pub struct S {
        pub d: core::time::Duration,
        pub v: Vec<core::time::Duration>,
    }
    pub fn metas() -> Vec<MetaType> {
        metas![S]
    }
}
pub mod awkward_phantom {
    use super::*;
    use std::marker::PhantomData;
    #[derive(TypeInfo)]
    pub struct S<T> {
        pub a: u8,
        pub p: Option<PhantomData<T>>,
    }
    pub fn metas() -> Vec<MetaType> {
        metas![S<u8>]
    }
}
pub mod awkward_compact_unit {
    use super::*;
    /// `()` is `HasCompact`; polkadot's `MultiAddress<AccountId, ()>` instantiates a compact
    /// field with it through a type parameter, here it is written out.
    #[derive(TypeInfo)]
    pub struct S {
        #[codec(compact)]
        pub nothing: (),
        pub also: Compact<()>,
    }
    #[derive(TypeInfo)]
    pub enum E {
        A(#[codec(compact)] ()),
    }
    pub fn metas() -> Vec<MetaType> {
        metas![S, E]
    }
}
/// A derive expanded inside `macro_rules!`: the recorded `type_name` of a field contains
/// `$crate` and is not parsable Rust - legal input (polkadot's SessionKeys has such names).
pub mod awkward_dollar_crate {
    use super::*;
    pub trait Tr {
        type Out: TypeInfo + 'static;
    }
    impl Tr for u8 {
        type Out = u32;
    }
    macro_rules! decl {
        () => {
            #[derive(TypeInfo)]
            pub struct InMacro {
                pub boxed: Box<<u8 as $crate::corpus::awkward_dollar_crate::Tr>::Out>,
                pub plain: <u8 as $crate::corpus::awkward_dollar_crate::Tr>::Out,
                pub opt: Option<Box<<u8 as $crate::corpus::awkward_dollar_crate::Tr>::Out>>,
            }
            #[derive(TypeInfo)]
            pub enum InMacroE {
                A(Box<<u8 as $crate::corpus::awkward_dollar_crate::Tr>::Out>),
            }
        };
    }
    decl!();
    pub fn metas() -> Vec<MetaType> {
        metas![InMacro, InMacroE]
    }
}
/// Modules named with raw identifiers: the registry path keeps the `r#` prefix.
pub mod awkward_rawmod {
    use super::*;
    pub mod r#async {
        use super::*;
        #[derive(TypeInfo)]
        pub struct Config {
            pub v: u8,
        }
        pub mod r#type {
            use super::*;
            #[derive(TypeInfo)]
            pub enum Kind {
                A,
                B(Config),
            }
        }
    }
    #[derive(TypeInfo)]
    pub struct User {
        pub c: r#async::Config,
        pub k: r#async::r#type::Kind,
    }
    pub fn metas() -> Vec<MetaType> {
        metas![User]
    }
}
/// Distinct Rust types that scale-info describes identically: twin entries in one registry.
pub mod twins {
    use super::*;
    #[derive(TypeInfo)]
    pub struct X {
        pub v: u8,
    }
    #[derive(TypeInfo)]
    #[allow(non_camel_case_types)]
    pub struct Legacy_Header {
        pub n: u32,
    }
    #[derive(TypeInfo)]
    pub struct Header {
        pub n: u64,
    }
    #[derive(TypeInfo)]
    pub struct Names {
        pub owned: Option<String>,
        pub borrowed: Option<&'static str>,
        pub len: u32,
        pub a: Vec<Box<X>>,
        pub b: Vec<X>,
        pub c: (Box<u8>, u8),
        pub d: (u8, u8),
        pub e: Legacy_Header,
        pub f: Header,
    }
    pub fn metas() -> Vec<MetaType> {
        metas![Names]
    }
}
pub mod awkward_cow {
    use super::*;
    /// A user type whose identifier happens to be `Cow`.
    #[derive(TypeInfo)]
    pub struct Cow {
        pub moo: u8,
    }
    #[derive(TypeInfo)]
    pub struct Farm {
        pub cow: Cow,
    }
    pub fn metas() -> Vec<MetaType> {
        metas![Farm]
    }
}
pub mod awkward_cow_generic {
    use super::*;
    #[derive(TypeInfo)]
    pub struct Cow<T> {
        pub a: u8,
        pub b: T,
    }
    #[derive(TypeInfo)]
    pub struct Farm {
        pub cow: Cow<u16>,
    }
    pub fn metas() -> Vec<MetaType> {
        metas![Farm]
    }
}
pub mod awkward_rawident {
    use super::*;
    #[derive(TypeInfo)]
    pub struct S {
        pub r#type: u8,
        pub r#fn: u16,
    }
    pub fn metas() -> Vec<MetaType> {
        metas![S]
    }
}

/// Generic definitions instantiated several times where a concrete component type
/// coincides with a generic argument (same type id) - legal Rust that the shape
/// comparison of same-path types has to survive (any verdict, but no panic).
pub mod coincidence {
    use super::*;
    #[derive(TypeInfo)]
    pub struct Tagged<T, U> {
        pub first: T,
        pub tag: u32,
        pub second: U,
    }
    #[derive(TypeInfo)]
    pub enum TaggedE<T, U> {
        A(T, u32),
        B { u: U, fixed: u8 },
    }
    #[derive(TypeInfo)]
    pub struct Same<T, U> {
        pub a: T,
        pub b: U,
    }
    #[derive(TypeInfo)]
    pub struct Wrapped<T> {
        pub a: Vec<T>,
        pub b: Vec<u8>,
        pub c: Option<T>,
        pub d: Option<u16>,
    }
    #[derive(TypeInfo)]
    pub struct TupleG<T>(pub T, pub u64, pub (T, u64));
    #[derive(TypeInfo)]
    pub struct User {
        pub a: Tagged<u32, u8>,
        pub b: Tagged<u32, u16>,
        pub c: TaggedE<u32, u8>,
        pub d: TaggedE<u32, u16>,
        pub e: Same<u8, u8>,
        pub f: Same<u8, u16>,
        pub g: Same<u16, u8>,
        pub h: Wrapped<u8>,
        pub i: Wrapped<u16>,
        pub j: TupleG<u64>,
        pub k: TupleG<u8>,
        pub l: Tagged<Same<u8, u8>, Same<u8, u8>>,
        pub m: Tagged<u8, u32>,
    }
    pub fn metas() -> Vec<MetaType> {
        metas![User]
    }
}

/// Two "crate versions": distinct Rust types that report the same scale-info path
/// with different shapes (manual `TypeInfo`, as a second version of a dependency would).
pub mod versions {
    use super::*;
    use scale_info::{build::Fields, Path, Type};
    pub struct V1;
    pub struct V2;
    pub struct V3;
    impl TypeInfo for V1 {
        type Identity = Self;
        fn type_info() -> Type {
            Type::builder()
                .path(Path::new("Thing", "dep::types"))
                .composite(Fields::named().field(|f| f.ty::<u8>().name("a").type_name("u8")))
        }
    }
    impl TypeInfo for V2 {
        type Identity = Self;
        fn type_info() -> Type {
            Type::builder().path(Path::new("Thing", "dep::types")).composite(
                Fields::named()
                    .field(|f| f.ty::<u8>().name("a").type_name("u8"))
                    .field(|f| f.ty::<u16>().name("b").type_name("u16")),
            )
        }
    }
    impl TypeInfo for V3 {
        type Identity = Self;
        fn type_info() -> Type {
            Type::builder()
                .path(Path::new("Other", "dep::types"))
                .composite(Fields::unnamed().field(|f| f.ty::<V1>().type_name("Thing")))
        }
    }
    #[derive(TypeInfo)]
    pub struct User {
        pub a: V1,
        pub b: V2,
        pub c: V3,
    }
    pub fn metas() -> Vec<MetaType> {
        metas![User]
    }
}

// ---------------------------------------------------------------------------
// assembling the corpus
// ---------------------------------------------------------------------------

/// A type alias whose name has a multi-byte character right in front of `Box<`: scale-info
/// records the field's `type_name` as written (`ΔBox<u8>`), and anything that slices that
/// string by byte offsets must respect character boundaries.
#[allow(non_camel_case_types)]
pub mod awkward_unicode_typename {
    use super::*;
    pub type ΔBox<T> = Vec<T>;
    pub type Größe = u32;
    #[derive(TypeInfo)]
    pub struct Holder {
        pub a: ΔBox<u8>,
        pub b: Option<ΔBox<Größe>>,
        pub c: Box<Größe>,
    }
    #[derive(TypeInfo)]
    pub enum E {
        V(ΔBox<bool>),
        W { größe: Größe },
    }
    pub fn metas() -> Vec<MetaType> {
        metas![Holder, E]
    }
}

/// Fourteen differently shaped types that all claim one path (what several crate versions of
/// one type look like after a merge), more than any small-group path in renaming covers.
pub mod many_shapes {
    use super::*;
    macro_rules! shapes {
        ($($n:ident ( $($t:ty),* )),* $(,)?) => {
            $( #[derive(TypeInfo)] pub struct $n($(pub $t),*); )*
            pub fn metas() -> Vec<MetaType> { metas![$($n),*, EA, EB] }
        };
    }
    shapes!(
        S0(), S1(u8), S2(u8, u8), S3(u8, u8, u8), S4(u8, u8, u8, u8), S5(u8, u8, u8, u8, u8),
        S6(u8, u8, u8, u8, u8, u8), S7(u8, u8, u8, u8, u8, u8, u8), S8(u8, u8, u8, u8, u8, u8, u8, u8),
        S9(u16, u8, u8, u8, u8, u8, u8, u8, u8), S10(u8, u8, u8, u8, u8, u8, u8, u8, u8, u8),
        S11(u8, u8, u8, u8, u8, u8, u8, u8, u8, u8, u8), S12(bool), S13(bool, u32),
    );
    #[derive(TypeInfo)]
    pub enum EA {
        A,
        B(u8),
    }
    #[derive(TypeInfo)]
    pub enum EB {
        A,
        B(u8),
        C { x: u16 },
    }
    /// all of them renamed to `clash::Foo`
    pub fn registry() -> PortableRegistry {
        let mut r = reg_of(metas());
        for t in r.types.iter_mut() {
            if !t.ty.path.segments.is_empty() {
                t.ty.path.segments = vec!["clash".to_string(), "Foo".to_string()];
            }
        }
        r
    }
}

/// A chain of `depth` structs, each holding the next (what `struct N0 { next: N1 } ...` gives
/// through scale-info), ending in a `u8`: deeper than any recursion guard one might pick.
pub fn deep_chain(depth: usize) -> PortableRegistry {
    let mut types = vec![];
    for i in 0..depth {
        types.push(serde_json::json!({
            "id": i,
            "type": {
                "path": ["sim", "corpus", "chain", format!("N{i}")],
                "def": {"composite": {"fields": [
                    {"name": "next", "type": i + 1, "typeName": if i + 1 < depth { format!("N{}", i + 1) } else { "u8".to_string() }}
                ]}}
            }
        }));
    }
    types.push(serde_json::json!({"id": depth, "type": {"def": {"primitive": "u8"}}}));
    serde_json::from_value(serde_json::json!({ "types": types })).expect("harness: deep chain registry")
}

/// What a hand-written `TypeInfo` impl may do and scale-info's own impls never do: entries of
/// builtin shape (sequence, array, tuple, compact) that declare type parameters. Every such
/// entry of `reg` gets a parameter `T` naming its (first) element type.
pub fn with_params_on_builtins(reg: &PortableRegistry) -> PortableRegistry {
    let mut v = serde_json::to_value(reg).expect("harness: registry to json");
    for t in v["types"].as_array_mut().expect("harness: types") {
        let def = &t["type"]["def"];
        let elem = if let Some(x) = def.get("sequence").or(def.get("array")).or(def.get("compact")) {
            x["type"].as_u64()
        } else if let Some(x) = def.get("tuple") {
            x.as_array().and_then(|a| a.first()).and_then(|x| x.as_u64())
        } else {
            None
        };
        if let Some(e) = elem {
            t["type"]["params"] = serde_json::json!([{"name": "T", "type": e}]);
        }
    }
    serde_json::from_value(v).expect("harness: registry from json")
}

fn cat(mut a: Vec<MetaType>, b: Vec<MetaType>) -> Vec<MetaType> {
    a.extend(b);
    a
}

/// Families whose paths are unique (after generic unification) and that generate
/// without error: the base for C06/C10/C16 workloads.
pub fn families() -> Vec<Entry> {
    let list: Vec<(&str, Vec<MetaType>)> = vec![
        ("single_unit", metas![prims::Unit]),
        ("single_prim", metas![u8]),
        ("single_empty_enum", metas![enums::Empty]),
        ("prims", prims::metas()),
        ("enums", enums::metas()),
        ("generics1", generics1::metas()),
        ("generics4", generics4::metas()),
        ("boxes", boxes::metas()),
        ("collections", collections::metas()),
        ("arrays_tuples", arrays_tuples::metas()),
        ("compact", compact::metas()),
        ("bits", bits::metas()),
        ("recursion", recursion::metas()),
        ("modules", modules::metas()),
        ("docs", docs::metas()),
        ("assoc_one", assoc::metas_one()),
        ("wrappers", wrappers::metas()),
        ("calls", calls::metas()),
        ("deep", deep::metas()),
        ("reach", reach::metas()),
        ("numbered", numbered::metas()),
        ("awkward_ok", awkward_ok::metas()),
        ("awkward_rawident", awkward_rawident::metas()),
        ("awkward_duration", awkward_duration::metas()),
        ("awkward_phantom", awkward_phantom::metas()),
        ("awkward_cow", awkward_cow::metas()),
        ("twins", twins::metas()),
        ("awkward_dollar_crate", awkward_dollar_crate::metas()),
        ("awkward_rawmod", awkward_rawmod::metas()),
        ("awkward_compact_unit", awkward_compact_unit::metas()),
        ("awkward_cow_generic", awkward_cow_generic::metas()),
        ("awkward_unicode_typename", awkward_unicode_typename::metas()),
        (
            "mix_small",
            cat(cat(prims::metas(), enums::metas()), compact::metas()),
        ),
        (
            "mix_generic",
            cat(cat(generics1::metas(), generics4::metas()), deep::metas()),
        ),
        (
            "mix_all",
            [
                prims::metas(),
                enums::metas(),
                generics1::metas(),
                generics4::metas(),
                boxes::metas(),
                collections::metas(),
                arrays_tuples::metas(),
                compact::metas(),
                bits::metas(),
                recursion::metas(),
                modules::metas(),
                docs::metas(),
                wrappers::metas(),
                calls::metas(),
                deep::metas(),
                reach::metas(),
                awkward_ok::metas(),
            ]
            .into_iter()
            .flatten()
            .collect(),
        ),
    ];
    let mut out: Vec<Entry> = list
        .into_iter()
        .map(|(n, m)| Entry {
            name: format!("fam:{n}"),
            reg: reg_of(m),
        })
        .collect();
    out.push(Entry {
        name: "fam:deep_chain".into(),
        reg: deep_chain(200),
    });
    out.push(Entry {
        name: "fam:handwritten_params".into(),
        reg: with_params_on_builtins(&reg_of(cat(cat(arrays_tuples::metas(), collections::metas()), compact::metas()))),
    });
    out
}

/// Families that contain differently shaped types under one path.
pub fn dup_families() -> Vec<Entry> {
    let list: Vec<(&str, Vec<MetaType>)> = vec![
        ("assoc_dup", assoc::metas_dup()),
        ("coincidence", coincidence::metas()),
        ("versions", versions::metas()),
        (
            "assoc_versions",
            cat(cat(assoc::metas_dup(), versions::metas()), prims::metas()),
        ),
    ];
    let mut out: Vec<Entry> = list
        .into_iter()
        .map(|(n, m)| Entry {
            name: format!("dup:{n}"),
            reg: reg_of(m),
        })
        .collect();
    out.push(Entry {
        name: "dup:many_shapes".into(),
        reg: many_shapes::registry(),
    });
    out
}

pub fn polkadot_full() -> PortableRegistry {
    let path = std::env::var("VERIF_POLKADOT")
        .unwrap_or_else(|_| "/repo/artifacts/polkadot_metadata.scale".to_string());
    let bytes = std::fs::read(&path).unwrap_or_else(|e| {
        eprintln!("HARNESS ERROR: cannot read {path}: {e}");
        std::process::exit(2)
    });
    let metadata = frame_metadata::RuntimeMetadataPrefixed::decode(&mut &bytes[..])
        .expect("polkadot metadata decodes");
    match metadata.1 {
        frame_metadata::RuntimeMetadata::V14(m) => m.types,
        frame_metadata::RuntimeMetadata::V15(m) => m.types,
        _ => panic!("metadata too old"),
    }
}

/// `retain()`-closed slice of a registry rooted at the given ids.
pub fn slice(reg: &PortableRegistry, roots: &[u32]) -> PortableRegistry {
    let mut r = reg.clone();
    let roots: std::collections::BTreeSet<u32> = roots.iter().copied().collect();
    r.retain(|id| roots.contains(&id));
    r
}

/// Count of non-prelude paths that occur more than once.
pub fn repeated_paths(reg: &PortableRegistry) -> BTreeMap<Vec<String>, Vec<u32>> {
    let mut m: BTreeMap<Vec<String>, Vec<u32>> = BTreeMap::new();
    for (i, t) in reg.types.iter().enumerate() {
        if t.ty.path.segments.len() >= 2 {
            m.entry(t.ty.path.segments.clone()).or_default().push(i as u32);
        }
    }
    m.retain(|_, v| v.len() > 1);
    m
}

/// Make every non-prelude path occur exactly once by suffixing the later
/// occurrences (`Foo`, `FooV2`, `FooV3`, ...). The result is what a program
/// with differently named types would produce; used where a property
/// quantifies over registries "with unique paths".
pub fn uniquify(reg: &PortableRegistry) -> PortableRegistry {
    let mut r = reg.clone();
    let mut seen: BTreeMap<Vec<String>, u32> = BTreeMap::new();
    let mut taken: std::collections::BTreeSet<Vec<String>> =
        r.types.iter().map(|t| t.ty.path.segments.clone()).collect();
    for t in r.types.iter_mut() {
        if t.ty.path.segments.len() < 2 {
            continue;
        }
        let key = t.ty.path.segments.clone();
        let n = seen.entry(key.clone()).or_insert(0);
        *n += 1;
        if *n > 1 {
            let mut k = *n;
            loop {
                let mut cand = key.clone();
                let last = cand.last_mut().unwrap();
                *last = format!("{last}V{k}");
                if !taken.contains(&cand) {
                    taken.insert(cand.clone());
                    t.ty.path.segments = cand;
                    break;
                }
                k += 1;
            }
        }
    }
    r
}

pub fn encode_hex(reg: &PortableRegistry) -> String {
    use parity_scale_codec::Encode;
    let b = reg.encode();
    let mut s = String::with_capacity(b.len() * 2);
    for x in b {
        s.push_str(&format!("{x:02x}"));
    }
    s
}

pub fn decode_hex(s: &str) -> Result<PortableRegistry, String> {
    if s.len() % 2 != 0 {
        return Err("odd hex length".into());
    }
    let mut b = Vec::with_capacity(s.len() / 2);
    for i in (0..s.len()).step_by(2) {
        b.push(u8::from_str_radix(&s[i..i + 2], 16).map_err(|e| e.to_string())?);
    }
    PortableRegistry::decode(&mut &b[..]).map_err(|e| e.to_string())
}
