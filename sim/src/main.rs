#![allow(dead_code, non_snake_case, non_camel_case_types)]
//! verif-sim: deterministic simulation harness for scale-typegen (see /verif/DESIGN.md).

mod c06;
mod c10;
mod c16;
mod corpus;
mod entropy;
mod gen;
mod model;
mod observe;
mod refmodel;
mod report;
mod rng;
mod runner;
mod selfcheck;

use report::{Ctx, Tier};

fn usage() -> ! {
    eprintln!(
        "usage: sim check <C06|C10|C11|C16> [quick|thorough]\n       sim replay <file>\n       sim selfcheck [quick|thorough]\n       sim c06-exec <lo> <hi> <sim|real>"
    );
    std::process::exit(2)
}

fn tier_from(args: &[String], idx: usize) -> Tier {
    let t = args
        .get(idx)
        .cloned()
        .or_else(|| std::env::var("VERIF_TIER").ok())
        .unwrap_or_else(|| "quick".into());
    match t.as_str() {
        "quick" => Tier::Quick,
        "thorough" => Tier::Thorough,
        _ => usage(),
    }
}

fn main() {
    let args: Vec<String> = std::env::args().skip(1).collect();
    entropy::install_panic_hook();
    let code = match args.first().map(|s| s.as_str()) {
        Some("check") => {
            let prop = args.get(1).cloned().unwrap_or_else(|| usage());
            let ctx = Ctx::from_env(tier_from(&args, 2));
            if let Err(e) = entropy::canary() {
                eprintln!("HARNESS ERROR: entropy seam ineffective: {e}");
                std::process::exit(2);
            }
            // the seeded registry generator must agree with the real scale-info derive
            if let Err(e) = gen::selftest() {
                eprintln!("HARNESS ERROR: {e}");
                std::process::exit(2);
            }
            println!("VERIF_SEED={} tier={} workers={}", ctx.seed, ctx.tier.name(), ctx.workers);
            match prop.as_str() {
                "C06" => c06::check(&ctx),
                "C10" => c10::check(&ctx),
                "C16" => c16::check(&ctx, c16::Prop::C16),
                "C11" => c16::check(&ctx, c16::Prop::C11),
                _ => usage(),
            }
        }
        Some("selfcheck") => {
            let ctx = Ctx::from_env(tier_from(&args, 1));
            selfcheck::selfcheck(&ctx)
        }
        Some("replay") => {
            let path = args.get(1).cloned().unwrap_or_else(|| usage());
            let text = std::fs::read_to_string(&path).unwrap_or_else(|e| {
                eprintln!("HARNESS ERROR: cannot read {path}: {e}");
                std::process::exit(2)
            });
            let mut doc: serde_json::Value = serde_json::from_str(&text).unwrap_or_else(|e| {
                eprintln!("HARNESS ERROR: {path} does not parse: {e}");
                std::process::exit(2)
            });
            doc["_path"] = serde_json::json!(path);
            if let Err(e) = entropy::canary() {
                eprintln!("HARNESS ERROR: entropy seam ineffective: {e}");
                std::process::exit(2);
            }
            match doc["engine"].as_str() {
                Some("c06") => c06::replay(&doc),
                Some("c06-proc") => c06::replay_proc(&doc),
                Some("c10") => c10::replay(&doc),
                Some("c16") => c16::replay(&doc),
                _ => {
                    eprintln!("HARNESS ERROR: unknown engine in replay file");
                    2
                }
            }
        }
        Some("dump-hex") => {
            // debugging aid: print a registry given as hex SCALE bytes in a file
            let text = std::fs::read_to_string(args.get(1).cloned().unwrap_or_else(|| usage())).unwrap();
            let reg = corpus::decode_hex(text.trim()).unwrap();
            for t in &reg.types {
                println!(
                    "{:3} {:40} params={:?} def={}",
                    t.id,
                    t.ty.path.segments.join("::"),
                    t.ty.type_params.iter().map(|p| (p.name.clone(), p.ty.map(|x| x.id))).collect::<Vec<_>>(),
                    format!("{:?}", t.ty.type_def).chars().take(400).collect::<String>()
                );
            }
            0
        }
        Some("gen-selftest") => match gen::selftest() {
            Ok(()) => {
                println!("registry generator agrees with scale-info on the mirrored definitions");
                0
            }
            Err(e) => {
                eprintln!("HARNESS ERROR: {e}");
                2
            }
        },
        Some("gen") => {
            // debugging aid: print the module generated for a corpus entry under standard settings
            let name = args.get(1).cloned().unwrap_or_else(|| usage());
            let w = c06::World::build();
            let e = w
                .families
                .iter()
                .chain(w.dups.iter())
                .find(|e| e.name == name)
                .unwrap_or_else(|| {
                    eprintln!("no corpus entry {name}");
                    std::process::exit(2)
                });
            let mut b = model::Builders::new();
            for op in model::bit_order_substitutes() {
                b.apply(&op).unwrap();
            }
            let settings = model::Switches::standard().settings(b);
            match observe::gen_tokens(&e.reg, &settings) {
                Ok(t) => println!("{t}"),
                Err(e) => println!("ERROR {e}"),
            }
            0
        }
        Some("c06-proc-job") => {
            let path = args.get(1).cloned().unwrap_or_else(|| usage());
            let warm = args.get(2).map(|s| s == "1").unwrap_or(false);
            let text = std::fs::read_to_string(&path).unwrap_or_default();
            match serde_json::from_str::<serde_json::Value>(&text)
                .map_err(|e| e.to_string())
                .and_then(|doc| c06::proc_job(&doc, warm))
            {
                Ok(d) => {
                    println!("{d}");
                    0
                }
                Err(e) => {
                    eprintln!("HARNESS ERROR: c06-proc-job: {e}");
                    2
                }
            }
        }
        Some("c06-exec") => {
            let lo: u64 = args.get(1).and_then(|s| s.parse().ok()).unwrap_or_else(|| usage());
            let hi: u64 = args.get(2).and_then(|s| s.parse().ok()).unwrap_or_else(|| usage());
            let real = args.get(3).map(|s| s == "real").unwrap_or(false);
            let ctx = Ctx::from_env(tier_from(&args, 99));
            entropy::set_real_entropy(real);
            let w = c06::World::build();
            let full = if ctx.tier == Tier::Thorough { 4 } else { 1 };
            for run in lo..hi {
                println!("{}", c06::exec0_digest(&w, &ctx, run, full));
            }
            0
        }
        _ => usage(),
    };
    std::process::exit(code);
}
