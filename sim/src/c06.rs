//! C06 - output is a deterministic function of registry and settings-as-sets.
//!
//! The hash-schedule simulator: one logical setting is linearised into K
//! different builder-call histories, each executed on a fresh thread under its
//! own simulated entropy (hash keys); everything observable must agree.

use std::collections::{BTreeMap, BTreeSet};
use std::sync::Arc;

use parity_scale_codec::Encode;
use scale_info::PortableRegistry;
use serde_json::{json, Value};

use crate::corpus;
use crate::entropy;
use crate::model::{bit_order_substitutes, Builders, Op, Switches};
use crate::observe;
use crate::refmodel;
use crate::report::{self, Ctx, Tier, Violation};
use crate::rng::{mix, tag, Digest, Rng};
use crate::runner;

pub const DERIVES: &[&str] = &[
    "Debug",
    "Clone",
    "PartialEq",
    "Eq",
    "::core::hash::Hash",
    "::serde::Serialize",
    "::codec::Encode",
    "::codec::Decode",
    "a::B",
    "Zz",
    // same last identifier as another entry: a sort key that is not unique shows here
    "::core::fmt::Debug",
    "::scale::Encode",
];
pub const ATTRS: &[&str] = &[
    "#[codec(crate = ::codec)]",
    "#[serde(rename_all = \"camelCase\")]",
    "#[allow(dead_code)]",
    "#[cfg_attr(feature = \"x\", derive(Foo))]",
    "#[decode_as_type(crate_path = \":: subxt :: ext :: scale_decode\")]",
    "#[must_use]",
    // same attribute path as another entry, different arguments
    "#[serde(deny_unknown_fields)]",
    "#[codec(dumb_trait_bound)]",
    // differ only by a blank inside a string literal
    "#[serde(alias = \"asset id\")]",
    "#[serde(alias = \"assetid\")]",
    // differ only in the length of a run of blanks inside a string literal
    // (not `doc` attributes: the read-back of generated items skips those, they are the
    // registry's documentation)
    "#[note(text = \" * x\")]",
    "#[note(text = \"   * x\")]",
];
pub const UNKNOWN_PATHS: &[&str] = &["unknown::Path1", "x::Y", "absent::from::registry::Z", "Lonely"];

/// Settings as sets: what a user means, independent of call order.
#[derive(Clone, Debug, PartialEq, Eq)]
pub struct Logical {
    pub global_derives: Vec<String>,
    pub global_attrs: Vec<String>,
    /// (path, recursive, derives, attrs)
    pub per_path: Vec<(String, bool, Vec<String>, Vec<String>)>,
    /// distinct source keys
    pub subs: Vec<(String, String)>,
    pub switches: Switches,
}

impl Logical {
    pub fn elements(&self) -> usize {
        self.global_derives.len()
            + self.global_attrs.len()
            + self
                .per_path
                .iter()
                .map(|p| p.2.len() + p.3.len())
                .sum::<usize>()
            + self.subs.len()
    }
    pub fn to_json(&self) -> Value {
        json!({
            "global_derives": self.global_derives, "global_attrs": self.global_attrs,
            "per_path": self.per_path.iter().map(|(p,r,d,a)| json!({"path":p,"recursive":r,"derives":d,"attrs":a})).collect::<Vec<_>>(),
            "subs": self.subs.iter().map(|(s,t)| json!([s,t])).collect::<Vec<_>>(),
            "switches": self.switches.to_json(),
        })
    }
}

fn src_key(src: &str) -> String {
    // identifiers only: "a::Foo<A, B>" and "a::Foo" are the same key
    src.split('<').next().unwrap_or(src).trim().to_string()
}

pub fn gen_logical(rng: &mut Rng, reg: &PortableRegistry) -> Logical {
    let known = refmodel::named_paths(reg);
    let mut pool: Vec<String> = vec![];
    // mostly known paths, some unknown
    let kn = rng.subset(&known, 6.min(known.len()));
    pool.extend(kn);
    let nunk = if rng.chance(1, 6) { 3 + rng.usize_below(3) } else { rng.usize_below(3) };
    let mut unknown_pool: Vec<String> = UNKNOWN_PATHS.iter().map(|s| s.to_string()).collect();
    unknown_pool.extend(crate::c16::near_misses(reg, rng));
    pool.extend(rng.subset(&unknown_pool, nunk));
    let ngd = rng.usize_below(6);
    let global_derives: Vec<String> = rng
        .subset(DERIVES, ngd)
        .into_iter()
        .map(|s| s.to_string())
        .collect();
    let nga = rng.usize_below(4);
    let global_attrs: Vec<String> = rng
        .subset(ATTRS, nga)
        .into_iter()
        .map(|s| s.to_string())
        .collect();
    let mut per_path = vec![];
    if !pool.is_empty() {
        let n_entries = if rng.chance(1, 6) { 5 + rng.usize_below(6) } else { rng.usize_below(6) };
        let mut seen = BTreeSet::new();
        for _ in 0..n_entries {
            let p = rng.pick(&pool).clone();
            let rec = rng.chance(1, 2);
            if !seen.insert((p.clone(), rec)) {
                continue;
            }
            let nd = rng.usize_below(5);
            let na = rng.usize_below(4);
            let d: Vec<String> = rng.subset(DERIVES, nd).into_iter().map(|s| s.to_string()).collect();
            let a: Vec<String> = rng.subset(ATTRS, na).into_iter().map(|s| s.to_string()).collect();
            per_path.push((p, rec, d, a));
        }
    }
    // one setting in twelve is wide: dozens of unknown paths with derives, attributes and
    // substitutes, more than any cap or small-size path in validation and the builders covers
    let wide = rng.chance(1, 12);
    let mut wide_subs: Vec<(String, String)> = vec![];
    if wide {
        let n = 18 + rng.usize_below(24);
        for i in 0..n {
            let p = format!("wide::m{}::T{i}", i % 5);
            let (nd, na) = (1 + rng.usize_below(2), rng.usize_below(2));
            let d: Vec<String> = rng.subset(DERIVES, nd).into_iter().map(|s| s.to_string()).collect();
            let a: Vec<String> = rng.subset(ATTRS, na).into_iter().map(|s| s.to_string()).collect();
            per_path.push((p.clone(), rng.chance(1, 2), d, a));
            if rng.chance(2, 3) {
                wide_subs.push((p, format!("::subst::W{i}")));
            }
        }
    }
    // substitutes: sources among known composite paths and unknown ones
    let comp: Vec<String> = {
        let mut seen = BTreeSet::new();
        reg.types
            .iter()
            .filter(|t| refmodel::is_generated_kind(&t.ty))
            .map(|t| refmodel::path_text(&t.ty))
            .filter(|p| seen.insert(p.clone()))
            .collect()
    };
    let mut subs = vec![];
    let mut keys = BTreeSet::new();
    let nsub = rng.usize_below(5);
    for i in 0..nsub {
        let src = if !comp.is_empty() && rng.chance(3, 4) {
            rng.pick(&comp).clone()
        } else {
            rng.pick(UNKNOWN_PATHS).to_string()
        };
        if !keys.insert(src.clone()) {
            continue;
        }
        let (src, tgt) = match rng.below(4) {
            0 => (format!("{src}<A, B>"), format!("::subst::T{i}<B, A>")),
            1 => (format!("{src}<A>"), format!("::subst::T{i}<::core::option::Option<A>, u8>")),
            2 if rng.chance(1, 2) => (src, format!("::subst::T{i}<::core::primitive::u8, ::subst::Fixed>")),
            2 => (src, format!("crate::subst::T{i}")),
            _ => (src, format!("::subst::T{i}")),
        };
        subs.push((src, tgt));
    }
    subs.extend(wide_subs);
    // a rule whose source is a proper prefix (a module) of a known path: only exact keys may match
    if !comp.is_empty() && rng.chance(1, 4) {
        let p = rng.pick(&comp).clone();
        let segs: Vec<&str> = p.split("::").collect();
        if segs.len() >= 2 {
            let cut = 1 + rng.usize_below(segs.len() - 1);
            let src = segs[..cut].join("::");
            if keys.insert(src.clone()) {
                subs.push((src, format!("::subst::Prefix{cut}")));
            }
        }
    }
    let switches = Switches {
        root: rng
            .pick(&["root", "types", "my_types", "root", "types", "r#try"])
            .to_string(),
        alloc: match rng.below(3) {
            0 => None,
            1 => Some("::alloc".into()),
            _ => Some("::subxt_core::alloc".into()),
        },
        docs: rng.chance(1, 2),
        codec_attrs: rng.chance(1, 2),
        compact: if rng.chance(1, 12) {
            None
        } else {
            Some("::codec::Compact".into())
        },
        bits: if rng.chance(1, 12) {
            None
        } else {
            Some("::bits::DecodedBits".into())
        },
        compact_as: if rng.chance(1, 2) {
            Some("::codec::CompactAs".into())
        } else {
            None
        },
    };
    if rng.chance(4, 5) {
        for op in bit_order_substitutes() {
            if let Op::SubInsert { src, tgt } = op {
                if known.iter().any(|k| *k == src) && keys.insert(src.clone()) {
                    subs.push((src, tgt));
                }
            }
        }
    }
    Logical {
        global_derives,
        global_attrs,
        per_path,
        subs,
        switches,
    }
}

/// One builder-call history that registers exactly `l` (permuted, batched, with
/// repetitions and absorbing no-ops).
pub fn linearise(l: &Logical, seed: u64, stats: Option<&mut LinStats>) -> Vec<Op> {
    let mut rng = Rng::new(seed);
    let mut ops: Vec<Op> = vec![];
    let mut st = LinStats::default();
    let batches = |items: &[String], rng: &mut Rng| -> Vec<Vec<String>> {
        let mut v = items.to_vec();
        rng.shuffle(&mut v);
        let mut out = vec![];
        let mut i = 0;
        while i < v.len() {
            let take = 1 + rng.usize_below(v.len() - i);
            out.push(v[i..i + take].to_vec());
            i += take;
        }
        // repetition of an already registered element: sets must absorb it
        if !v.is_empty() && rng.chance(1, 3) {
            let mut extra = vec![rng.pick(&v).clone()];
            if rng.chance(1, 2) {
                extra.push(rng.pick(&v).clone());
            }
            out.push(extra);
        }
        out
    };
    for b in batches(&l.global_derives, &mut rng) {
        if rng.chance(1, 4) {
            ops.push(Op::SettingsDerivesAll(b));
        } else {
            ops.push(Op::DerivesAll(b));
        }
    }
    for b in batches(&l.global_attrs, &mut rng) {
        ops.push(Op::AttrsAll(b));
    }
    for (p, rec, d, a) in &l.per_path {
        for b in batches(d, &mut rng) {
            ops.push(Op::DerivesFor {
                path: p.clone(),
                items: b,
                recursive: *rec,
            });
        }
        for b in batches(a, &mut rng) {
            ops.push(Op::AttrsFor {
                path: p.clone(),
                items: b,
                recursive: *rec,
            });
        }
    }
    // substitutes: distinct keys, so the order of insertion cannot legitimately matter
    let mut subs = l.subs.clone();
    rng.shuffle(&mut subs);
    let mut i = 0;
    while i < subs.len() {
        match rng.below(4) {
            0 => {
                let take = 1 + rng.usize_below(subs.len() - i);
                ops.push(Op::SubExtend(subs[i..i + take].to_vec()));
                i += take;
            }
            1 => {
                ops.push(Op::SubInsertIfAbsent {
                    src: subs[i].0.clone(),
                    tgt: subs[i].1.clone(),
                });
                i += 1;
            }
            2 if subs[i].1.starts_with("::") => {
                ops.push(Op::SettingsSubstitute {
                    src: subs[i].0.clone(),
                    tgt: subs[i].1.clone(),
                });
                i += 1;
            }
            _ => {
                ops.push(Op::SubInsert {
                    src: subs[i].0.clone(),
                    tgt: subs[i].1.clone(),
                });
                i += 1;
            }
        }
    }
    if !subs.is_empty() && rng.chance(1, 4) {
        // re-inserting the identical rule is absorbed as well
        let s = rng.pick(&subs).clone();
        ops.push(Op::SubInsert { src: s.0, tgt: s.1 });
        st.repeats += 1;
    }
    rng.shuffle(&mut ops);
    st.ops = ops.len();
    if let Some(s) = stats {
        *s = st;
    }
    ops
}

#[derive(Default, Clone, Debug)]
pub struct LinStats {
    pub ops: usize,
    pub repeats: usize,
}

/// Everything one execution exposes.
#[derive(Clone, Debug, Default)]
pub struct Obs {
    pub rejected_op: Option<String>,
    pub calls_accepted: String,
    pub dedup: String,
    pub dedup_paths: String,
    pub gen_orig: String,
    pub gen_orig_again: String,
    pub gen_dedup: String,
    pub validation: String,
    /// resolve_type_path(id) + emission for every id, one line per id
    pub resolve_all: String,
    pub validation_repeated: Option<String>,
    pub sorted_problem: Option<String>,
    // reach only (not compared)
    pub raw_orders: Vec<(String, String)>,
    pub max_derives_attrs: (usize, usize),
    pub renamed: usize,
}

impl Obs {
    /// (label, value) pairs that must agree between executions.
    pub fn compared(&self) -> Vec<(&'static str, &str)> {
        vec![
            ("dedup_registry", &self.dedup),
            ("dedup_paths", &self.dedup_paths),
            ("generate(original)", &self.gen_orig),
            ("generate(deduplicated)", &self.gen_dedup),
            ("validation_as_sets", &self.validation),
            ("resolve_type_path(all ids)", &self.resolve_all),
            // every call of every history is valid; whether the builders accepted them all is
            // an outcome like any other (C16 judges the builders, C06 only that equal settings
            // behave equally)
            ("builder_calls_accepted", &self.calls_accepted),
        ]
    }
    pub fn digest(&self) -> u64 {
        let mut d = Digest::new();
        for (l, v) in self.compared() {
            d.str(l);
            d.str(v);
        }
        d.str(&self.gen_orig_again);
        d.str(&format!("{:?}{:?}", self.rejected_op, self.sorted_problem));
        d.0
    }
}

fn res_text(r: &Result<String, String>) -> String {
    match r {
        Ok(s) => format!("Ok:{s}"),
        Err(e) => format!("Err:{e}"),
    }
}

/// The body of one execution (runs on the execution thread).
pub fn execute(reg: &PortableRegistry, sw: &Switches, ops: &[Op]) -> Obs {
    let mut o = Obs::default();
    let mut b = Builders::new();
    for (i, op) in ops.iter().enumerate() {
        if let Err(e) = b.apply(op) {
            o.rejected_op = Some(format!("{op:?} -> {}", e.name()));
        }
        // users render settings between builder calls (subxt's per-variant structs do, through
        // TypeGenerator::upcast_composite): a rendering cached inside the settings and not
        // invalidated by the next registration would go stale here. Which calls are followed by
        // a rendering depends on the history, so executions of one run differ in it.
        if (ops.len() + i) % 3 == 0 {
            use quote::ToTokens;
            let _ = b.derives.default_derives().to_token_stream();
            let cloned = b.derives.clone();
            let _ = cloned.default_derives().to_token_stream();
        }
    }
    o.calls_accepted = if o.rejected_op.is_some() { "no" } else { "yes" }.to_string();
    // raw iteration orders (reach measure: did the hash schedule actually vary?)
    o.raw_orders.push((
        "TypeSubstitutes::iter".into(),
        b.subs
            .iter()
            .map(|(k, _)| k.join("::"))
            .collect::<Vec<_>>()
            .join(","),
    ));
    o.raw_orders.push((
        "DerivesRegistry::derives_on_specific_types".into(),
        b.derives
            .derives_on_specific_types()
            .into_iter()
            .map(|(p, _)| crate::model::nospace(&crate::model::tokens_of(p)))
            .collect::<Vec<_>>()
            .join(","),
    ));
    o.raw_orders.push((
        "Derives::derives".into(),
        b.derives
            .default_derives()
            .derives()
            .into_iter()
            .map(|p| crate::model::nospace(&crate::model::tokens_of(p)))
            .collect::<Vec<_>>()
            .join(","),
    ));
    let v = observe::validation(&b.subs, &b.derives, reg);
    o.validation = v.normalised();
    o.validation_repeated = v.repeated_path.clone();
    o.raw_orders
        .push(("SettingsValidationError vectors".into(), v.raw_order));

    let settings = sw.settings(b);
    let d = observe::dedup(reg);
    let mut sorted_problem = None;
    // precedence pairs over all items of all outputs of this execution
    let mut derive_pairs: BTreeSet<(String, String)> = BTreeSet::new();
    let mut attr_pairs: BTreeSet<(String, String)> = BTreeSet::new();
    let mut check_sorted = |tokens: &Result<String, String>, o: &mut Obs| {
        if let Ok(t) = tokens {
            match observe::item_attrs(t) {
                Ok(items) => {
                    for it in items {
                        o.max_derives_attrs.0 = o.max_derives_attrs.0.max(it.derives.len());
                        o.max_derives_attrs.1 = o.max_derives_attrs.1.max(it.attrs.len());
                        for (what, list, before) in [
                            ("derives", &it.derives, &mut derive_pairs),
                            ("attributes", &it.attrs, &mut attr_pairs),
                        ] {
                            if let Err(e) = observe::dupfree(list) {
                                sorted_problem.get_or_insert(format!("{what} of {}: {e}", it.path));
                            }
                            if let Err(e) = observe::consistent_order(list, before) {
                                sorted_problem.get_or_insert(format!("{what} of {}: {e}", it.path));
                            }
                        }
                    }
                }
                Err(e) => {
                    sorted_problem.get_or_insert(e);
                }
            }
        }
    };
    {
        use scale_typegen::typegen::ir::ToTokensWithSettings;
        let g = scale_typegen::TypeGenerator::new(reg, &settings);
        let mut all = String::new();
        for id in 0..reg.types.len() as u32 {
            let r = entropy::catch(|| {
                g.resolve_type_path(id)
                    .map(|p| p.to_token_stream(&settings).to_string())
                    .map_err(|e| observe::err_text(&e))
            });
            let line = match r {
                Ok(Ok(t)) => t,
                Ok(Err(e)) => format!("Err:{e}"),
                Err(p) => format!("PANIC:{p}"),
            };
            all.push_str(&format!("{id}={line}\n"));
        }
        o.resolve_all = all;
    }
    let g1 = observe::gen_tokens(reg, &settings);
    check_sorted(&g1, &mut o);
    let g2 = observe::gen_tokens(reg, &settings);
    o.gen_orig = res_text(&g1);
    o.gen_orig_again = res_text(&g2);
    match &d {
        Ok(r2) => {
            let mut dg = Digest::new();
            dg.bytes(&r2.encode());
            o.dedup = format!("Ok:{:016x}", dg.0);
            o.dedup_paths = observe::path_listing(r2);
            o.renamed = r2
                .types
                .iter()
                .zip(reg.types.iter())
                .filter(|(a, b)| a.ty.path != b.ty.path)
                .map(|(_, b)| b.ty.path.segments.clone())
                .collect::<BTreeSet<_>>()
                .len();
            let g3 = observe::gen_tokens(r2, &settings);
            check_sorted(&g3, &mut o);
            o.gen_dedup = res_text(&g3);
        }
        Err(e) => {
            o.dedup = format!("Err:{e}");
        }
    }
    o.sorted_problem = sorted_problem;
    o
}

/// A completely explicit execution: what the replay file stores.
#[derive(Clone, Debug)]
pub struct ExecSpec {
    pub entropy: u64,
    pub ops: Vec<Op>,
    /// generate this other (corpus) registry on the same thread first: state that survives a
    /// generation (a thread-local or static cache) would then leak into the observed one
    pub decoy: Option<String>,
}

/// Registries generated as decoys before the observed one.
pub fn decoy_registry(name: &str) -> Option<&'static PortableRegistry> {
    static DECOYS: std::sync::OnceLock<Vec<corpus::Entry>> = std::sync::OnceLock::new();
    DECOYS
        .get_or_init(corpus::families)
        .iter()
        .find(|e| e.name == name)
        .map(|e| &e.reg)
}
pub const DECOY_SELF_DEFAULT: &str = "self:default-settings";
pub const DECOY_SELF_OTHER_ALLOC: &str = "self:other-custom-alloc-path";
pub const DECOY_NAMES: &[&str] = &[
    DECOY_SELF_OTHER_ALLOC,
    "fam:generics1",
    "fam:compact",
    DECOY_SELF_DEFAULT,
    "fam:modules",
    "fam:calls",
    DECOY_SELF_DEFAULT,
];

impl ExecSpec {
    pub fn to_json(&self) -> Value {
        json!({"entropy_seed": self.entropy, "decoy_generated_first": self.decoy, "ops": self.ops.iter().map(|o| o.to_json()).collect::<Vec<_>>()})
    }
    pub fn from_json(v: &Value) -> Result<Self, String> {
        let entropy = v
            .get("entropy_seed")
            .and_then(|x| x.as_u64())
            .ok_or("entropy_seed")?;
        let mut ops = vec![];
        for o in v.get("ops").and_then(|x| x.as_array()).ok_or("ops")? {
            ops.push(Op::from_json(o)?);
        }
        Ok(ExecSpec {
            entropy,
            ops,
            decoy: v
                .get("decoy_generated_first")
                .and_then(|x| x.as_str())
                .map(|s| s.to_string()),
        })
    }
}

pub fn run_exec(reg: &PortableRegistry, sw: &Switches, e: &ExecSpec) -> (Result<Obs, String>, entropy::ThreadStats) {
    entropy::execution(e.entropy, || {
        if e.decoy.as_deref() == Some(DECOY_SELF_OTHER_ALLOC) {
            // the observed registry under the same history but another custom alloc crate path
            // (state keyed by "custom or not" instead of by the path itself would be stale)
            let mut b = Builders::new();
            for op in &e.ops {
                let _ = b.apply(op);
            }
            let mut sw2 = sw.clone();
            sw2.alloc = Some("::decoy_alloc::nested".into());
            let _ = observe::gen_tokens(reg, &sw2.settings(b));
        } else if e.decoy.as_deref() == Some(DECOY_SELF_DEFAULT) {
            // the observed registry itself, under default settings (keyed-by-id or by-path state
            // from a generation with other settings would be stale afterwards)
            let settings = Switches {
                compact_as: None,
                ..Switches::standard()
            }
            .settings(Builders::new());
            let _ = observe::gen_tokens(reg, &settings);
        } else if let Some(d) = e.decoy.as_deref().and_then(decoy_registry) {
            // same settings, different registry, results ignored
            let mut b = Builders::new();
            for op in &e.ops {
                let _ = b.apply(op);
            }
            let settings = sw.settings(b);
            let _ = observe::gen_tokens(d, &settings);
            let _ = observe::dedup(d);
        }
        execute(reg, sw, &e.ops)
    })
}

/// Compare a set of executions; returns (class, detail) of the first disagreement.
pub fn judge(obs: &[Result<Obs, String>]) -> Option<(String, String)> {
    for (i, o) in obs.iter().enumerate() {
        match o {
            Err(p) => {
                // panics of the generator are caught per observation and compared as outcomes;
                // one that escapes here comes from the harness itself or from the builders
                let class = if p.starts_with("harness:") {
                    "harness-panic"
                } else {
                    "panic-outside-observation"
                };
                return Some((class.into(), format!("execution {i} panicked: {p}")));
            }
            Ok(o) => {
                if o.gen_orig != o.gen_orig_again {
                    return Some((
                        "same-thread-regeneration".into(),
                        format!(
                            "execution {i}: generating twice on one thread differs\n{}",
                            first_diff(&o.gen_orig, &o.gen_orig_again)
                        ),
                    ));
                }
                if let Some(s) = &o.sorted_problem {
                    return Some(("unsorted-or-duplicate".into(), format!("execution {i}: {s}")));
                }

            }
        }
    }
    let first = obs[0].as_ref().unwrap();
    for (i, o) in obs.iter().enumerate().skip(1) {
        let o = o.as_ref().unwrap();
        for ((l, a), (_, b)) in first.compared().into_iter().zip(o.compared()) {
            if a != b {
                return Some((
                    format!("differs:{l}"),
                    format!("executions 0 and {i} disagree on {l}\n{}", first_diff(a, b)),
                ));
            }
        }
    }
    None
}

pub fn first_diff(a: &str, b: &str) -> String {
    let pos = a
        .bytes()
        .zip(b.bytes())
        .position(|(x, y)| x != y)
        .unwrap_or(a.len().min(b.len()));
    let lo = pos.saturating_sub(80);
    let cut = |s: &str| {
        let mut lo2 = lo.min(s.len());
        while !s.is_char_boundary(lo2) {
            lo2 -= 1;
        }
        let mut hi = (pos + 160).min(s.len());
        while !s.is_char_boundary(hi) {
            hi -= 1;
        }
        s[lo2..hi].to_string()
    };
    format!("  at byte {pos}:\n  A: ...{}\n  B: ...{}", cut(a), cut(b))
}

// ---------------------------------------------------------------------------
// workload
// ---------------------------------------------------------------------------

pub struct World {
    pub families: Vec<corpus::Entry>,
    pub dups: Vec<corpus::Entry>,
    pub polkadot: PortableRegistry,
    pub polkadot_named: Vec<u32>,
}

impl World {
    pub fn build() -> Arc<World> {
        let polkadot = corpus::polkadot_full();
        let polkadot_named = polkadot
            .types
            .iter()
            .enumerate()
            .filter(|(_, t)| refmodel::is_generated_kind(&t.ty))
            .map(|(i, _)| i as u32)
            .collect();
        Arc::new(World {
            families: corpus::families(),
            dups: corpus::dup_families(),
            polkadot,
            polkadot_named,
        })
    }
}

/// Give two differently shaped named types of `reg` the same path (a "derived" registry).
pub fn inject_path_clash(reg: &PortableRegistry, rng: &mut Rng, pairs: usize) -> PortableRegistry {
    let mut r = reg.clone();
    let named: Vec<usize> = r
        .types
        .iter()
        .enumerate()
        .filter(|(_, t)| refmodel::is_generated_kind(&t.ty))
        .map(|(i, _)| i)
        .collect();
    if named.len() < 2 {
        return r;
    }
    for _ in 0..pairs {
        let a = *rng.pick(&named);
        let b = *rng.pick(&named);
        if a == b {
            continue;
        }
        let p = r.types[a].ty.path.clone();
        r.types[b].ty.path = p;
    }
    r
}

/// Two paths in one namespace, `Name` and `Name<k>` (k = 1, 2 or 11), each carried by two
/// differently shaped types: the names handed out while renaming `Name` collide with the
/// sibling that is renamed in the same pass.
pub fn inject_numbered_clash(reg: &PortableRegistry, rng: &mut Rng) -> PortableRegistry {
    let mut r = reg.clone();
    let mut named: Vec<usize> = r
        .types
        .iter()
        .enumerate()
        .filter(|(_, t)| refmodel::is_generated_kind(&t.ty))
        .map(|(i, _)| i)
        .collect();
    if named.len() < 4 {
        return r;
    }
    rng.shuffle(&mut named);
    let base = r.types[named[0]].ty.path.clone();
    let mut sibling = base.clone();
    let k = *rng.pick(&[1u32, 1, 2, 11]);
    if let Some(last) = sibling.segments.last_mut() {
        *last = format!("{last}{k}");
    }
    r.types[named[1]].ty.path = base;
    r.types[named[2]].ty.path = sibling.clone();
    r.types[named[3]].ty.path = sibling;
    r
}

pub fn pick_registry(w: &World, rng: &mut Rng, run: u64, full_runs: u64) -> (String, PortableRegistry) {
    if run < full_runs {
        return ("polkadot:full".into(), w.polkadot.clone());
    }
    match rng.below(100) {
        0..=39 => {
            let e = rng.pick(&w.families);
            (e.name.clone(), e.reg.clone())
        }
        40..=51 => {
            let e = rng.pick(&w.dups);
            (e.name.clone(), e.reg.clone())
        }
        52..=55 => {
            let e = rng.pick(&w.families);
            (
                format!("derived:numbered-clash:{}", e.name),
                inject_numbered_clash(&e.reg, rng),
            )
        }
        56..=63 => {
            let e = rng.pick(&w.families);
            let pairs = 1 + rng.usize_below(3);
            (
                format!("derived:clash{pairs}:{}", e.name),
                inject_path_clash(&e.reg, rng, pairs),
            )
        }
        64..=79 => {
            // a seeded program of Rust-like definitions registered the way scale-info does
            let s = rng.next_u64();
            let r = crate::gen::random_registry(&mut Rng::new(s));
            if rng.chance(1, 4) {
                let pairs = 1 + rng.usize_below(2);
                (format!("gen:{s:016x}+clash{pairs}"), inject_path_clash(&r, rng, pairs))
            } else {
                (format!("gen:{s:016x}"), r)
            }
        }
        _ => {
            let k = 1 + rng.usize_below(5);
            let roots = rng.subset(&w.polkadot_named, k);
            let r = corpus::slice(&w.polkadot, &roots);
            (format!("polkadot:slice{roots:?}"), r)
        }
    }
}

pub struct RunPlan {
    pub reg_name: String,
    pub reg: PortableRegistry,
    pub logical: Logical,
    pub execs: Vec<ExecSpec>,
}

pub fn plan_run(w: &World, root_seed: u64, run: u64, tier: Tier, full_runs: u64) -> RunPlan {
    let rs = mix(root_seed, tag("C06"), run);
    let mut wl = Rng::new(rs).sub("workload");
    let (reg_name, reg) = pick_registry(w, &mut wl, run, full_runs);
    let logical = gen_logical(&mut wl, &reg);
    let k = if reg.types.len() > 600 {
        2
    } else if wl.chance(1, 16) {
        if tier == Tier::Thorough {
            32
        } else {
            12
        }
    } else if tier == Tier::Thorough {
        8
    } else {
        4
    };
    let execs = (0..k)
        .map(|i| ExecSpec {
            entropy: mix(rs, tag("entropy"), i),
            ops: linearise(&logical, mix(rs, tag("linearise"), i), None),
            decoy: (i % 2 == 1)
                .then(|| DECOY_NAMES[(mix(rs, tag("decoy"), i) % DECOY_NAMES.len() as u64) as usize].to_string()),
        })
        .collect();
    RunPlan {
        reg_name,
        reg,
        logical,
        execs,
    }
}

#[derive(Default)]
pub struct RunReport {
    pub run: u64,
    pub log_digest: u64,
    pub workload_digest: u64,
    pub nontrivial: bool,
    pub executions: u64,
    pub distinct_keys: BTreeSet<u128>,
    pub distinct_histories: usize,
    pub order_variation: BTreeMap<String, usize>,
    pub renamed_paths: usize,
    pub gen_ok: bool,
    pub gen_err_variant: Option<String>,
    pub max_derives_attrs: (usize, usize),
    pub both_ways_unknown: bool,
    pub overlapping_recursive_roots: bool,
    pub draws: u64,
    pub violation: Option<Violation>,
    pub sample: Option<Value>,
    pub reg_kind: String,
    pub repeats: usize,
    pub clashing_paths: usize,
    pub heavy_globals: bool,
    /// (observable, number of entries, permutation pattern relative to sorted order)
    pub patterns: BTreeSet<(String, usize, String)>,
}

/// The iteration order of a comma separated key list as a permutation of its sorted order
/// (only for 2..=6 distinct entries): the measure of "distinct interleavings reached".
fn permutation_pattern(raw: &str) -> Option<(usize, String)> {
    if raw.is_empty() || raw.contains('[') || raw.contains('|') {
        return None;
    }
    let items: Vec<&str> = raw.split(',').filter(|s| !s.is_empty()).collect();
    let n = items.len();
    if !(2..=6).contains(&n) {
        return None;
    }
    let mut sorted = items.clone();
    sorted.sort();
    sorted.dedup();
    if sorted.len() != n {
        return None;
    }
    let pat: Vec<String> = items
        .iter()
        .map(|x| sorted.iter().position(|y| y == x).unwrap().to_string())
        .collect();
    Some((n, pat.join("")))
}

fn overlapping_recursive(reg: &PortableRegistry, l: &Logical) -> bool {
    let by_path = refmodel::ids_by_path(reg);
    let mut sets: Vec<BTreeSet<u32>> = vec![];
    for (p, rec, _, _) in &l.per_path {
        if *rec {
            if let Some(ids) = by_path.get(p) {
                sets.push(refmodel::reach(reg, ids[0]).with_params);
            }
        }
    }
    for i in 0..sets.len() {
        for j in i + 1..sets.len() {
            if sets[i]
                .intersection(&sets[j])
                .any(|id| refmodel::is_generated_kind(&reg.types[*id as usize].ty))
            {
                return true;
            }
        }
    }
    false
}

pub fn one_run(w: &World, ctx: &Ctx, run: u64, full_runs: u64, want_sample: bool) -> RunReport {
    let plan = plan_run(w, ctx.seed, run, ctx.tier, full_runs);
    let mut rep = RunReport {
        run,
        ..Default::default()
    };
    rep.reg_kind = plan
        .reg_name
        .split(':')
        .next()
        .unwrap_or_default()
        .to_string();
    let mut obs = vec![];
    let mut log = Digest::new();
    let mut hist = BTreeSet::new();
    let mut orders: BTreeMap<String, BTreeSet<String>> = BTreeMap::new();
    for e in &plan.execs {
        let (o, st) = run_exec(&plan.reg, &plan.logical.switches, e);
        rep.draws += st.draws as u64;
        rep.distinct_keys.insert(st.first_key);
        log.u64(e.entropy);
        hist.insert(format!("{:?}", e.ops));
        match &o {
            Ok(o) => {
                log.u64(o.digest());
                for (k, v) in &o.raw_orders {
                    if let Some(pat) = permutation_pattern(v) {
                        rep.patterns.insert((k.clone(), pat.0, pat.1));
                    }
                    orders.entry(k.clone()).or_default().insert(v.clone());
                    // the raw orders are part of the event log: equal seeds must give equal orders
                    log.str(v);
                }
                rep.max_derives_attrs.0 = rep.max_derives_attrs.0.max(o.max_derives_attrs.0);
                rep.max_derives_attrs.1 = rep.max_derives_attrs.1.max(o.max_derives_attrs.1);
                rep.renamed_paths = rep.renamed_paths.max(o.renamed);
            }
            Err(p) => log.str(p),
        }
        obs.push(o);
    }
    rep.executions = plan.execs.len() as u64;
    rep.distinct_histories = hist.len();
    rep.order_variation = orders.into_iter().map(|(k, v)| (k, v.len())).collect();
    rep.log_digest = log.0;
    let mut wd = Digest::new();
    wd.bytes(&plan.reg.encode());
    wd.str(&plan.logical.to_json().to_string());
    rep.workload_digest = wd.0;
    if let Some(Ok(o)) = obs.first() {
        rep.gen_ok = o.gen_orig.starts_with("Ok:") || o.gen_dedup.starts_with("Ok:");
        if let Some(rest) = o.gen_orig.strip_prefix("Err:") {
            rep.gen_err_variant = Some(rest.split(':').next().unwrap_or_default().to_string());
        }
    }
    rep.nontrivial =
        plan.logical.elements() > 0 && rep.distinct_histories >= 2 && rep.distinct_keys.len() >= 2;
    let known: BTreeSet<String> = refmodel::named_paths(&plan.reg).into_iter().collect();
    rep.both_ways_unknown = plan.logical.per_path.iter().any(|(p, rec, _, _)| {
        !known.contains(p)
            && *rec
            && plan
                .logical
                .per_path
                .iter()
                .any(|(q, r2, _, _)| q == p && !*r2)
    });
    rep.overlapping_recursive_roots = overlapping_recursive(&plan.reg, &plan.logical);
    rep.clashing_paths = corpus::repeated_paths(&plan.reg).len();
    rep.heavy_globals = plan.logical.global_derives.len() >= 4 && plan.logical.global_attrs.len() >= 3;
    if let Some((class, detail)) = judge(&obs) {
        rep.violation = Some(minimise_and_package(&plan, class, detail, run));
    }
    if want_sample {
        rep.sample = Some(json!({
            "run": run, "registry": plan.reg_name, "registry_types": plan.reg.types.len(),
            "logical_settings": plan.logical.to_json(),
            "executions": plan.execs.iter().take(2).map(|e| e.to_json()).collect::<Vec<_>>(),
            "k": plan.execs.len(),
            "outcome_digest": format!("{:016x}", rep.log_digest),
        }));
    }
    rep
}

// ---------------------------------------------------------------------------
// minimisation + replay
// ---------------------------------------------------------------------------

fn class_of(reg: &PortableRegistry, sw: &Switches, execs: &[ExecSpec]) -> Option<(String, String)> {
    let obs: Vec<_> = execs.iter().map(|e| run_exec(reg, sw, e).0).collect();
    judge(&obs)
}

fn remove_element(l: &Logical, idx: usize) -> Option<Logical> {
    // enumerate logical elements in a fixed order and drop the idx-th
    let mut n = idx;
    let mut l2 = l.clone();
    if n < l2.global_derives.len() {
        l2.global_derives.remove(n);
        return Some(l2);
    }
    n -= l2.global_derives.len();
    if n < l2.global_attrs.len() {
        l2.global_attrs.remove(n);
        return Some(l2);
    }
    n -= l2.global_attrs.len();
    for i in 0..l2.per_path.len() {
        let (dl, al) = (l2.per_path[i].2.len(), l2.per_path[i].3.len());
        if n < dl {
            l2.per_path[i].2.remove(n);
            return Some(l2);
        }
        n -= dl;
        if n < al {
            l2.per_path[i].3.remove(n);
            return Some(l2);
        }
        n -= al;
    }
    if n < l2.subs.len() {
        l2.subs.remove(n);
        return Some(l2);
    }
    None
}

pub fn minimise_and_package(plan: &RunPlan, class: String, detail: String, run: u64) -> Violation {
    let unminimised = json!({
        "engine": "c06",
        "registry_name": plan.reg_name,
        "registry_scale_hex": corpus::encode_hex(&plan.reg),
        "switches": plan.logical.switches.to_json(),
        "logical_settings": plan.logical.to_json(),
        "histories_are_original": true,
        "responsible": "not analysed (unminimised run)",
        "executions": plan.execs.iter().map(|e| e.to_json()).collect::<Vec<_>>(),
        "run": run,
    });
    let sw = plan.logical.switches.clone();
    let mut reg = plan.reg.clone();
    let mut logical = plan.logical.clone();
    // seeds for re-linearisation stay fixed per execution slot
    let lin_seed = |i: usize| mix(plan.execs[i].entropy, tag("relinearise"), 0);
    let mut slots: Vec<usize> = (0..plan.execs.len()).collect();
    let build = |l: &Logical, slots: &[usize], first: bool| -> Vec<ExecSpec> {
        slots
            .iter()
            .map(|&i| ExecSpec {
                decoy: plan.execs[i].decoy.clone(),
                entropy: plan.execs[i].entropy,
                ops: if first {
                    plan.execs[i].ops.clone()
                } else {
                    linearise(l, lin_seed(i), None)
                },
            })
            .collect()
    };
    let same = |c: &Option<(String, String)>| c.as_ref().map(|x| x.0 == class).unwrap_or(false);
    // 1. reduce to one or two executions
    let mut execs = build(&logical, &slots, true);
    let mut reduced = false;
    'outer: for i in 0..execs.len() {
        if same(&class_of(&reg, &sw, &execs[i..i + 1])) {
            slots = vec![slots[i]];
            reduced = true;
            break 'outer;
        }
    }
    if !reduced {
        'outer2: for i in 0..execs.len() {
            for j in i + 1..execs.len() {
                let pair = vec![execs[i].clone(), execs[j].clone()];
                if same(&class_of(&reg, &sw, &pair)) {
                    slots = vec![slots[i], slots[j]];
                    break 'outer2;
                }
            }
        }
    }
    execs = slots.iter().map(|&i| plan.execs[i].clone()).collect();
    let mut explicit = true; // execs hold the original histories
    // 2. shrink the logical settings (re-linearised), element by element. A failure that
    // depends on the hash schedule survives a smaller history only under some hash keys (the
    // history length shifts std's per-map key counter), so each candidate is tried under a
    // few derived entropy seeds and the reproducing ones are adopted.
    let try_logical = |l: &Logical, reg: &PortableRegistry| -> Option<Vec<ExecSpec>> {
        let e = build(l, &slots, false);
        for t in 0..6u64 {
            let mut cand = e.clone();
            if t > 0 {
                for (k, x) in cand.iter_mut().enumerate() {
                    x.entropy = mix(x.entropy, tag("shrink-entropy"), t * 16 + k as u64);
                }
            }
            if same(&class_of(reg, &sw, &cand)) {
                return Some(cand);
            }
        }
        None
    };
    if let Some(e) = try_logical(&logical, &reg) {
        execs = e;
        explicit = false;
        let mut i = 0;
        while i < logical.elements() {
            if let Some(l2) = remove_element(&logical, i) {
                if let Some(e) = try_logical(&l2, &reg) {
                    logical = l2;
                    execs = e;
                    continue;
                }
            }
            i += 1;
        }
        logical.per_path.retain(|p| !(p.2.is_empty() && p.3.is_empty()));
        if let Some(e) = try_logical(&logical, &reg) {
            execs = e;
        }
    }
    // 3. shrink the registry: a retain()-slice rooted at a single named type
    if reg.types.len() > 3 {
        let mut best: Option<PortableRegistry> = None;
        let named: Vec<u32> = reg
            .types
            .iter()
            .enumerate()
            .filter(|(_, t)| refmodel::is_named(&t.ty))
            .map(|(i, _)| i as u32)
            .collect();
        for id in named.iter().take(200) {
            let r2 = corpus::slice(&reg, &[*id]);
            if r2.types.len() >= best.as_ref().map(|b| b.types.len()).unwrap_or(reg.types.len()) {
                continue;
            }
            if same(&class_of(&r2, &sw, &execs)) {
                best = Some(r2);
            }
        }
        if let Some(b) = best {
            reg = b;
        }
    }
    // 4. attribute the failure: equalise entropy, or equalise histories
    let mut responsible = "single execution";
    if execs.len() == 2 {
        // identical histories, different hash keys: a two-way choice is hit by a single
        // alternative key only half of the time, so several are tried
        let mut found = false;
        if execs[0].decoy != execs[1].decoy {
            // identical history and hash keys, only the decoy generation differs
            let mut same_all = execs.clone();
            same_all[1].ops = same_all[0].ops.clone();
            same_all[1].entropy = same_all[0].entropy;
            if same(&class_of(&reg, &sw, &same_all)) {
                execs = same_all;
                responsible = "state left behind by a previous generation on the same thread (identical history and hash keys; one execution generated another registry first)";
                found = true;
            }
        }
        for t in 0..12u64 {
            if found {
                break;
            }
            let mut same_ops = execs.clone();
            same_ops[1].ops = same_ops[0].ops.clone();
            if t > 0 {
                same_ops[1].entropy = mix(execs[1].entropy, tag("alt-entropy"), t);
            }
            if same(&class_of(&reg, &sw, &same_ops)) {
                execs = same_ops;
                responsible = "hash schedule (identical histories, different hash keys)";
                found = true;
                break;
            }
        }
        if !found {
            let mut same_entropy = execs.clone();
            same_entropy[1].entropy = same_entropy[0].entropy;
            if same(&class_of(&reg, &sw, &same_entropy)) {
                execs = same_entropy;
                responsible = "registration history (identical hash keys at thread start, different call order; note that a different history also shifts std's per-map key counter)";
            } else {
                responsible = "hash schedule and registration history together";
            }
        }
    }
    let final_detail = class_of(&reg, &sw, &execs)
        .map(|x| x.1)
        .unwrap_or(detail);
    let key = format!("{}|{}", class, plan.reg_name);
    Violation {
        property: "C06",
        class: class.clone(),
        key,
        summary: format!(
            "C06 {class} on {} (run {run}); responsible: {responsible}; {} logical elements, {} registry types\n{final_detail}",
            plan.reg_name,
            logical.elements(),
            reg.types.len()
        ),
        replay: json!({
            "engine": "c06",
            "registry_name": plan.reg_name,
            "registry_scale_hex": corpus::encode_hex(&reg),
            "switches": sw.to_json(),
            "logical_settings": logical.to_json(),
            "histories_are_original": explicit,
            "responsible": responsible,
            "executions": execs.iter().map(|e| e.to_json()).collect::<Vec<_>>(),
            "run": run,
        }),
        unminimised_replay: Some(unminimised),
    }
}

pub fn replay(doc: &Value) -> i32 {
    let reg = match corpus::decode_hex(doc["registry_scale_hex"].as_str().unwrap_or_default()) {
        Ok(r) => r,
        Err(e) => {
            eprintln!("HARNESS ERROR: replay registry: {e}");
            return 2;
        }
    };
    let sw = match Switches::from_json(&doc["switches"]) {
        Ok(s) => s,
        Err(e) => {
            eprintln!("HARNESS ERROR: replay switches: {e}");
            return 2;
        }
    };
    let mut execs = vec![];
    for e in doc["executions"].as_array().cloned().unwrap_or_default() {
        match ExecSpec::from_json(&e) {
            Ok(x) => execs.push(x),
            Err(e) => {
                eprintln!("HARNESS ERROR: replay execution: {e}");
                return 2;
            }
        }
    }
    let want = doc["class"].as_str().unwrap_or_default();
    match class_of(&reg, &sw, &execs) {
        Some((class, detail)) if class == want => {
            println!("{detail}");
            println!(
                "VIOLATION property=C06 replay={}",
                doc["_path"].as_str().unwrap_or("?")
            );
            1
        }
        Some((class, detail)) => {
            println!("replay produced a different violation class {class} (wanted {want})\n{detail}");
            3
        }
        None => {
            println!("replay: no violation reproduced");
            0
        }
    }
}

// ---------------------------------------------------------------------------
// the check
// ---------------------------------------------------------------------------

pub fn check(ctx: &Ctx) -> i32 {
    let w = World::build();
    let (runs, full_runs) = match ctx.tier {
        Tier::Quick => (ctx.scaled(3000), 1),
        Tier::Thorough => (ctx.scaled(150_000), 4),
    };
    let reports = runner::par_runs(runs, ctx.workers, |i| {
        one_run(&w, ctx, i, full_runs, i < 3 || i == full_runs + 7)
    });
    let mut cross = Value::Null;
    let violations: Vec<Violation> = vec![];
    // "in another process": only when the in-process stage is clean (otherwise
    // the violation found there is the verdict)
    if ctx.tier == Tier::Thorough && reports.iter().all(|r| r.violation.is_none()) {
        match cross_process(ctx, &w, full_runs) {
            Ok(v) => cross = v,
            Err(e) => {
                eprintln!("HARNESS ERROR: cross-process stage: {e}");
                return 2;
            }
        }
    }
    // "in another process", with process-wide state in mind: one execution alone in a fresh
    // process must equal the same execution in a fresh process that has generated the same
    // registry under other settings before (a static cache would be warm with foreign content)
    let mut violations = violations;
    let mut proc_stage = Value::Null;
    if reports.iter().all(|r| r.violation.is_none()) {
        match process_history_stage(ctx, &w, full_runs) {
            Ok((v, mut viol)) => {
                proc_stage = v;
                violations.append(&mut viol);
            }
            Err(e) => {
                eprintln!("HARNESS ERROR: process-history stage: {e}");
                return 2;
            }
        }
    }
    let cross = json!({"digest_comparison_with_child_processes": cross, "fresh_process_with_and_without_earlier_generation": proc_stage});
    summarise(ctx, reports, cross, violations)
}

/// The job a child process executes: `sim c06-proc-job <file> <0|1>`.
pub fn proc_job_doc(reg_name: &str, reg: &PortableRegistry, sw: &Switches, e: &ExecSpec) -> Value {
    json!({
        "engine": "c06-proc",
        "registry_name": reg_name,
        "registry_scale_hex": corpus::encode_hex(reg),
        "switches": sw.to_json(),
        "execution": e.to_json(),
        "earlier_generations_in_the_same_process": ["same registry, default settings", "same registry, every derive and attribute of the universe registered globally and for every path"],
    })
}

/// Child side: print the digest of the compared observations of the job's execution,
/// optionally after warming the process with generations of the same registry under other settings.
pub fn proc_job(doc: &Value, warm: bool) -> Result<String, String> {
    let reg = corpus::decode_hex(doc["registry_scale_hex"].as_str().unwrap_or_default())?;
    let sw = Switches::from_json(&doc["switches"])?;
    let e = ExecSpec::from_json(&doc["execution"])?;
    if warm {
        let paths = refmodel::named_paths(&reg);
        let _ = entropy::execution(0x77, || {
            let plain = Switches::standard().settings(Builders::new());
            let _ = observe::gen_tokens(&reg, &plain);
            let mut b = Builders::new();
            let all_d: Vec<String> = DERIVES.iter().map(|s| s.to_string()).collect();
            let all_a: Vec<String> = ATTRS.iter().map(|s| s.to_string()).collect();
            let _ = b.apply(&Op::DerivesAll(all_d.clone()));
            let _ = b.apply(&Op::AttrsAll(all_a.clone()));
            for p in &paths {
                let _ = b.apply(&Op::DerivesFor {
                    path: p.clone(),
                    items: all_d.clone(),
                    recursive: false,
                });
                let _ = b.apply(&Op::AttrsFor {
                    path: p.clone(),
                    items: all_a.clone(),
                    recursive: true,
                });
            }
            let heavy = Switches::standard().settings(b);
            let _ = observe::gen_tokens(&reg, &heavy);
            let other_alloc = Switches {
                alloc: Some("::decoy_alloc::nested".into()),
                ..Switches::standard()
            }
            .settings(Builders::new());
            let _ = observe::gen_tokens(&reg, &other_alloc);
            let _ = observe::dedup(&reg);
        });
    }
    let (o, _) = run_exec(&reg, &sw, &e);
    match o {
        Ok(o) => {
            let mut d = Digest::new();
            for (l, v) in o.compared() {
                d.str(l);
                d.str(v);
            }
            Ok(format!("{:016x}", d.0))
        }
        Err(p) => Ok(format!("panic:{p}")),
    }
}

fn run_proc_pair(job_path: &std::path::Path) -> Result<(String, String), String> {
    let exe = std::env::current_exe().map_err(|e| e.to_string())?;
    let mut out = vec![];
    for warm in ["0", "1"] {
        let o = std::process::Command::new(&exe)
            .arg("c06-proc-job")
            .arg(job_path)
            .arg(warm)
            .output()
            .map_err(|e| e.to_string())?;
        if !o.status.success() {
            return Err(format!(
                "child failed: {}{}",
                String::from_utf8_lossy(&o.stdout),
                String::from_utf8_lossy(&o.stderr)
            ));
        }
        out.push(String::from_utf8_lossy(&o.stdout).trim().to_string());
    }
    Ok((out[0].clone(), out[1].clone()))
}

fn process_history_stage(ctx: &Ctx, w: &World, full_runs: u64) -> Result<(Value, Vec<Violation>), String> {
    let n = match ctx.tier {
        Tier::Quick => ctx.scaled(24),
        Tier::Thorough => ctx.scaled(600),
    };
    let dir = ctx.verif_dir.join("sim").join("target").join(format!("c06proc-{}", std::process::id()));
    std::fs::create_dir_all(&dir).map_err(|e| e.to_string())?;
    let results = runner::par_runs(n, ctx.workers, |i| {
        // runs from a separate index range, small registries only
        let run = 1_000_000 + full_runs + i;
        let plan = plan_run(w, ctx.seed, run, ctx.tier, full_runs);
        if plan.reg.types.len() > 300 {
            return Ok(None);
        }
        let doc = proc_job_doc(&plan.reg_name, &plan.reg, &plan.logical.switches, &plan.execs[0]);
        let path = dir.join(format!("job{i}.json"));
        std::fs::write(&path, doc.to_string()).map_err(|e| e.to_string())?;
        let r = run_proc_pair(&path);
        let _ = std::fs::remove_file(&path);
        r.map(|(alone, warm)| Some((run, plan.reg_name.clone(), doc, alone, warm)))
    });
    let _ = std::fs::remove_dir_all(&dir);
    let mut compared = 0u64;
    let mut violations = vec![];
    for r in results {
        match r? {
            None => {}
            Some((run, reg_name, doc, alone, warm)) => {
                compared += 1;
                if alone != warm && violations.len() < 2 {
                    violations.push(Violation {
                        property: "C06",
                        class: "differs:fresh-process-vs-process-with-earlier-generation".into(),
                        key: format!("process-history|{reg_name}"),
                        summary: format!(
                            "C06 run {run} on {reg_name}: the execution alone in a fresh process gives digest {alone}, the same execution in a fresh process that generated the same registry under other settings before gives {warm}: state survives a generation process-wide"
                        ),
                        replay: doc,
                        unminimised_replay: None,
                    });
                }
            }
        }
    }
    Ok((json!({"runs_compared (2 child processes each)": compared}), violations))
}

pub fn replay_proc(doc: &Value) -> i32 {
    let path = std::path::PathBuf::from(doc["_path"].as_str().unwrap_or_default());
    match run_proc_pair(&path) {
        Ok((alone, warm)) if alone != warm => {
            println!("alone in a fresh process: {alone}; after earlier generations in the same process: {warm}");
            println!("VIOLATION property=C06 replay={}", path.display());
            1
        }
        Ok(_) => {
            println!("replay: no violation reproduced");
            0
        }
        Err(e) => {
            eprintln!("HARNESS ERROR: {e}");
            2
        }
    }
}

fn summarise(ctx: &Ctx, reports: Vec<RunReport>, cross: Value, mut violations: Vec<Violation>) -> i32 {
    let runs = reports.len() as u64;
    let mut executions = 0u64;
    let mut keys = BTreeSet::new();
    let mut nontrivial = BTreeSet::new();
    let mut order_var: BTreeMap<String, u64> = BTreeMap::new();
    let mut samples = vec![];
    let mut probes: BTreeMap<&str, u64> = BTreeMap::new();
    let mut reg_kinds: BTreeMap<String, u64> = BTreeMap::new();
    let mut errs: BTreeMap<String, u64> = BTreeMap::new();
    let mut draws = 0u64;
    let mut log = Digest::new();
    let mut seen_keys = BTreeSet::new();
    let mut patterns: BTreeMap<(String, usize), BTreeSet<String>> = BTreeMap::new();
    for r in reports {
        for (k, n, p) in &r.patterns {
            patterns.entry((k.clone(), *n)).or_default().insert(p.clone());
        }
        executions += r.executions;
        draws += r.draws;
        log.u64(r.log_digest);
        keys.extend(r.distinct_keys.iter().copied());
        if r.nontrivial {
            nontrivial.insert(r.workload_digest);
        }
        for (k, v) in &r.order_variation {
            if *v >= 2 {
                *order_var.entry(k.clone()).or_default() += 1;
            }
        }
        *reg_kinds.entry(r.reg_kind.clone()).or_default() += 1;
        if let Some(e) = &r.gen_err_variant {
            *errs.entry(e.clone()).or_default() += 1;
        }
        let mut p = |k: &'static str, c: bool| {
            if c {
                *probes.entry(k).or_default() += 1;
            } else {
                probes.entry(k).or_default();
            }
        };
        p("runs_with_two_or_more_clashing_paths", r.clashing_paths >= 2);
        p("runs_with_two_or_more_paths_renamed (observed)", r.renamed_paths >= 2);
        p("runs_with_4plus_global_derives_and_3plus_global_attrs", r.heavy_globals);
        p("runs_with_item_4plus_derives_3plus_attrs (observed)", r.max_derives_attrs.0 >= 4 && r.max_derives_attrs.1 >= 3);
        p("runs_with_unknown_path_registered_specific_and_recursive", r.both_ways_unknown);
        p("runs_with_overlapping_recursive_roots", r.overlapping_recursive_roots);
        p("runs_where_generation_succeeded", r.gen_ok);
        p("runs_with_distinct_histories", r.distinct_histories >= 2);
        p("runs_with_repeated_registration", r.repeats > 0 || r.distinct_histories >= 2);
        if let Some(s) = r.sample {
            samples.push(s);
        }
        if let Some(v) = r.violation {
            if v.class.starts_with("harness") {
                eprintln!("HARNESS ERROR: {}", v.summary);
                return 2;
            }
            if seen_keys.insert(v.key.clone()) && violations.len() < 5 {
                violations.push(v);
            }
        }
    }
    // reach probes that must not be zero, otherwise the workload no longer reaches what it claims
    let must_nonzero = [
        "runs_with_two_or_more_clashing_paths",
        "runs_with_4plus_global_derives_and_3plus_global_attrs",
        "runs_with_overlapping_recursive_roots",
        "runs_with_distinct_histories",
    ];
    // workload-side probes only, and only when no violation was found (a violation is the
    // verdict). Whether the implementation's own collections iterate in varying order is reported
    // but not required: an implementation that switches to ordered maps is still correct, and the
    // start-up canary already proves that the seam varies std's hash order.
    if runs >= 500 && violations.is_empty() {
        for k in must_nonzero {
            if probes.get(k).copied().unwrap_or(0) == 0 {
                eprintln!("HARNESS ERROR: reach probe {k} is zero over {runs} runs");
                return 2;
            }
        }
    }
    let unsched = entropy::UNSCHEDULED_DRAWS.load(std::sync::atomic::Ordering::SeqCst);
    let wall = ctx.wall_s();
    let coverage = json!({
        "evaluations": executions,
        "distinct_nontrivial": nontrivial.len(),
        "rule": "one evaluation = one execution (fresh thread, own hash keys, own linearisation of the run's logical settings) observed at dedup / generate x2 / generate(dedup) / validation / emitted derive lists; a run is non-trivial when its logical settings are non-empty and its K executions used >= 2 distinct histories and >= 2 distinct hash-key pairs; distinct = distinct (registry bytes, logical settings) digests among non-trivial runs",
        "samples": samples,
        "runs": runs,
        "runs_per_hour": (runs as f64 / wall * 3600.0).round(),
        "seeds_per_hour": (executions as f64 / wall * 3600.0).round(),
        "simulated_time": "none - the system under test reads no clock",
        "fault_kinds_fired": {
            "hash_key_redraw (executions)": executions,
            "distinct_128bit_key_pairs": keys.len(),
            "registration_permutation+batching (runs with >=2 distinct histories)": probes.get("runs_with_distinct_histories"),
            "same_thread_regeneration": executions,
            "other_registry_generated_first_on_the_same_thread (every second execution)": executions / 2,
            "fresh_process_regeneration": cross,
        },
        "getrandom_draws_in_executions": draws,
        "unscheduled_draws_outside_executions": unsched,
        "runs_exhibiting_>=2_iteration_orders_per_observable": order_var,
        "distinct_iteration_orders_reached (observable, entries n): distinct permutations of n!": patterns
            .iter()
            .map(|((k, n), set)| {
                let fact: u64 = (1..=*n as u64).product();
                (format!("{k} n={n}"), format!("{} of {}", set.len(), fact))
            })
            .collect::<BTreeMap<_, _>>(),
        "reach_probes": probes,
        "registry_kinds": reg_kinds,
        "generation_error_variants_seen": errs,
        "event_log_digest": format!("{:016x}", log.0),
        "components": report::REAL_VS_STUB,
        "exhaustive": false,
    });
    report::finish(
        ctx,
        "C06",
        "exploration",
        coverage,
        vec![
            "the interposed getrandom is the only entropy source reaching std::collections::hash_map::RandomState (canary at start-up)".into(),
            "'sorted' is read as: all derive (attribute) lists of an output follow one strict total order - which order is the implementation's choice - and no list contains the same tokens twice".into(),
            "sampling, not proof".into(),
        ],
        violations,
    )
}

// ---------------------------------------------------------------------------
// "in another process"
// ---------------------------------------------------------------------------

/// Digest of execution 0 of a run: printed by `sim c06-exec`, compared by the parent.
pub fn exec0_digest(w: &World, ctx: &Ctx, run: u64, full_runs: u64) -> String {
    let plan = plan_run(w, ctx.seed, run, ctx.tier, full_runs);
    let (o, _) = run_exec(&plan.reg, &plan.logical.switches, &plan.execs[0]);
    match o {
        Ok(o) => {
            let mut d = Digest::new();
            for (l, v) in o.compared() {
                d.str(l);
                d.str(v);
            }
            format!("{:016x}", d.0)
        }
        Err(p) => format!("panic:{p}"),
    }
}

fn cross_process(ctx: &Ctx, w: &World, full_runs: u64) -> Result<Value, String> {
    let exe = std::env::current_exe().map_err(|e| e.to_string())?;
    let children = 48u64;
    let per_child = 40u64;
    let mut sim_ok = 0u64;
    let mut real_ok = 0u64;
    let results = runner::par_runs(children, ctx.workers, |c| {
        let real = c % 2 == 1;
        let lo = full_runs + c * per_child;
        let out = std::process::Command::new(&exe)
            .arg("c06-exec")
            .arg(lo.to_string())
            .arg((lo + per_child).to_string())
            .arg(if real { "real" } else { "sim" })
            .env("VERIF_SEED", ctx.seed.to_string())
            .env("VERIF_TIER", ctx.tier.name())
            .output();
        (c, real, lo, out)
    });
    for (c, real, lo, out) in results {
        let out = out.map_err(|e| format!("child {c}: {e}"))?;
        if !out.status.success() {
            return Err(format!(
                "child {c} failed: {}",
                String::from_utf8_lossy(&out.stderr)
            ));
        }
        let text = String::from_utf8_lossy(&out.stdout);
        let lines: Vec<&str> = text.lines().collect();
        if lines.len() as u64 != per_child {
            return Err(format!("child {c}: expected {per_child} lines, got {}", lines.len()));
        }
        for (k, line) in lines.iter().enumerate() {
            let run = lo + k as u64;
            let here = exec0_digest(w, ctx, run, full_runs);
            if *line == here {
                if real {
                    real_ok += 1
                } else {
                    sim_ok += 1
                }
            } else if real {
                // every hash-key pair the kernel can hand out is also a simulated one, so a
                // difference that only shows under kernel entropy means the seam misrepresents std
                return Err(format!(
                    "seam fidelity: run {run} exec 0 gives {here} under simulated entropy and {line} in a fresh process with kernel entropy, while no in-process execution pair differed"
                ));
            } else {
                return Err(format!(
                    "replay determinism broken: run {run} exec 0 gives {here} in-process and {line} in a child with simulated entropy"
                ));
            }
        }
    }
    Ok(json!({"child_processes": children, "simulated_entropy_matches": sim_ok, "real_kernel_entropy_matches": real_ok}))
}
